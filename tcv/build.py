"""Materialise an engine case: python modules for the program, config/context files, Config objects."""
import copy
import hashlib
import json
import logging
import sys
import types
from pathlib import Path

KIND_ANNOTATION = {
    'dict': 'dict', 'list': 'list', 'str': 'str', 'int': 'int', 'numpy': '_np.ndarray', 'frame': '_pd.DataFrame',
    'generator': '_Gen', 'lazy': '_Gen', 'gen_empty': '_Gen', 'mock': 'object', 'continues': '_tcd.ContinuesData', 'list_numpy': 'list', 'dir': '_tc.DirData', 'memory': '_objs.MemValue',
    'figure': '_Figure',
}
KIND_DATA_CLASS = {'lazy': '_tcd.GeneratedDataLazy', 'list_numpy': '_tcd.ListOfNumpyData',
                   'mock': '_tc.InMemoryData'}


def pkg_name(program):
    h = hashlib.sha256(json.dumps(program, sort_keys=True).encode()).hexdigest()[:10]
    return 'tcvg' + h


def module_path(program, mi):
    m = program['modules'][mi]
    p = pkg_name(program)
    return f'{p}.{m["sub"]}.{m["name"]}' if m['sub'] else f'{p}.{m["name"]}'


def declared_inputs(t):
    """Inputs in the order the library processes them: Meta.input_tasks first, then InputTaskParameters in parameters."""
    return [i for i in t['inputs'] if not i.get('via_param')] + [i for i in t['inputs'] if i.get('via_param')]


def input_text(program, inp):
    """The string a declaration uses (None for by-class)."""
    if inp['form'] == 'absent':
        return inp['text']
    if inp['form'] == 'pattern':
        return '~' + inp['regex']
    if inp['form'] == 'pattern2':
        return '~~' + inp['regex']
    if inp['form'] == 'text':
        return inp['text']
    tgt = program['modules'][inp['mod']]['tasks'][inp['task']]
    if inp['form'] == 'class':
        return None
    s = tgt['name'] if inp['form'] == 'name' else tgt['slug']
    return f'{inp["rel"]}::{s}' if inp.get('rel') else s


def input_short(program, inp):
    if inp['form'] in ('absent', 'text'):
        return inp['text'].split('::')[-1].split(':')[-1]
    return program['modules'][inp['mod']]['tasks'][inp['task']]['name']


def objs_source():
    return '''
import taskchain as _tc
from pathlib import Path as _Path
from taskchain.parameter import ParameterObject as _PO, AutoParameterObject as _APO
from tcv.runtime import stable_repr as _sr, _c, RT as _RT


class Oa(_PO):
    def __init__(self, x, y=None):
        self.x = x
        self.y = y

    def repr(self):
        return 'Oa(' + _sr(self.x) + '|' + _sr(self.y) + ')'

    def tcv_canon(self):
        return ['Oa', _c(self.x), _c(self.y)]


class Ob(_APO):
    def __init__(self, k, w=5, verbose=False):
        self._k = k
        self._w = w
        self.verbose = verbose

    @property
    def k(self):
        # a public, converted VIEW of the argument kept verbatim in self._k (e.g. a path string offered as a Path)
        return _Path(self._k) if isinstance(self._k, str) and '/' in self._k else self._k

    @staticmethod
    def dont_persist_default_value_args():
        return ['w']

    @property
    def w(self):
        # a public, coarser VIEW of the argument kept exactly in self._w (the stored `_w` is what identifies the object)
        return self._w // 2 * 2 if isinstance(self._w, int) and not isinstance(self._w, bool) else self._w

    def tcv_canon(self):
        return ['Ob', _c(self._k), _c(self._w)]


class Oc(_APO):
    """Stores a set (only used by the hash-seed sub-campaign of C02)."""
    def __init__(self, tags):
        self.tags = set(tags)

    def tcv_canon(self):
        return ['Oc', sorted(self.tags)]


class Oe:
    """A plain class, NOT a ParameterObject: in storage keys it is represented by the text of its config definition
    (`<class path>(<args>, <kw>=<value> in written order)`)."""
    def __init__(self, k, w=5, tag='t'):
        self.k = k
        self.w = w
        self.tag = tag

    def tcv_canon(self):
        return ['Oe', _c(self.k), _c(self.w), _c(self.tag)]


class Od(_PO, _tc.chain.ChainObject):
    """A parameter object that looks at the chain it is used in (C19)."""
    def __init__(self, tag):
        self.tag = tag
        self.seen = None

    def init_chain(self, chain):
        self.seen = sorted(chain.tasks)

    def repr(self):
        return 'Od(' + _sr(self.tag) + ')'

    def tcv_canon(self):
        return ['Od', _c(self.tag), self.seen]


class MemValue(_tc.InMemoryData):
    # a user data class that is a sized collection: half of the generated objects are empty, i.e. FALSY objects
    def __len__(self):
        return getattr(self, 'tcv_len', 0)


_RT.classes['MemValue'] = MemValue
'''


def module_source(program, mi):
    mod = program['modules'][mi]
    pkg = pkg_name(program)
    lines = [
        'import taskchain as _tc',
        'import taskchain.data as _tcd',
        'from taskchain.parameter import Parameter as _P, InputTaskParameter as _ITP',
        'import numpy as _np',
        'from matplotlib.figure import Figure as _Figure',
        'import pandas as _pd',
        'from pathlib import Path as _Path',
        'from typing import Generator as _Gen',
        'from tcv import runtime as _rt',
        f'import {pkg}.objs as _objs',
    ]
    # classes of other modules referenced by class
    needed = set()
    for t in mod['tasks']:
        for i in t['inputs']:
            if i['form'] == 'class' and i['mod'] != mi:
                needed.add(i['mod'])
    for mj in sorted(needed):
        lines.append(f'import {module_path(program, mj)} as _m{mj}')
    lines.append('')
    for t in mod['tasks']:
        base = {'Task': '_tc.Task', 'ModuleTask': '_tc.ModuleTask', 'DoubleModuleTask': '_tc.DoubleModuleTask'}[t['base']]
        lines.append(f'class {t["cls"]}({base}):')
        lines.append('    class Meta:')
        if not t.get('derive_name'):
            lines.append(f'        name = {t["name"]!r}')
        if t['group'] and t['base'] == 'Task':
            lines.append(f'        task_group = {t["group"]!r}')
        if t.get('meta_group') and t['base'] != 'Task':
            lines.append(f'        task_group = {t["meta_group"]!r}')
        if t['abstract']:
            lines.append('        abstract = True')
        in_list, par_list = [], []
        for i in t['inputs']:
            if i['form'] == 'class':
                tgt = program['modules'][i['mod']]['tasks'][i['task']]
                ref = tgt['cls'] if i['mod'] == mi else f'_m{i["mod"]}.{tgt["cls"]}'
            else:
                ref = repr(input_text(program, i))
            if i.get('optional'):
                ref = f'_ITP({ref}, default={i["default"]!r})'
            elif i.get('itp'):
                ref = f'_ITP({ref})'   # a REQUIRED input spelled as InputTaskParameter(<class or name>)
            (par_list if i.get('via_param') else in_list).append(ref)
        plist = []
        for p in t['params']:
            args = [repr(p['name'])]
            if p.get('dtype'):
                args.append('dtype=' + {'Path': '_Path', 'int': 'int', 'str': 'str', 'list': 'list', 'dict': 'dict',
                                       'float': 'float', 'bool': 'bool'}[p['dtype']])
            if 'default' in p:
                if p['default'].get('as_object'):
                    dv = p['default']['v']
                    ea = ', '.join([repr(a) for a in dv.get('args', [])] + [f'{k}={v!r}' for k, v in dv.get('kwargs', {}).items()])
                    args.append(f'default=_objs.{dv["__object__"]}({ea})')
                else:
                    args.append(f'default=_Path({p["default"]["v"]!r})' if p['default'].get('as_path')
                                else f'default={p["default"]["v"]!r}')
            if p.get('cfg'):
                args.append(f'name_in_config={p["cfg"]!r}')
            if p.get('ignore'):
                args.append('ignore_persistence=True')
            if p.get('dpdv'):
                args.append('dont_persist_default_value=True')
            plist.append(f'_P({", ".join(args)})')
        lines.append(f'        input_tasks = [{", ".join(in_list)}]')
        lines.append(f'        parameters = [{", ".join(plist + par_list)}]')
        lines.append(f'        tcv_kind = {t["kind"]!r}')
        lines.append(f'        tcv_ignored = {tuple(p["name"] for p in t["params"] if p.get("ignore"))!r}')
        dins = declared_inputs(t)
        lines.append(f'        tcv_defaults = {dict((k, i["default"]) for k, i in enumerate(dins) if i.get("optional"))!r}')
        if t['kind'] in KIND_DATA_CLASS:
            lines.append(f'        data_class = {KIND_DATA_CLASS[t["kind"]]}')
        ann = KIND_ANNOTATION[t['kind']]
        pnames = [p['name'] for p in t['params']]
        if t['style'] == 'args':
            shorts = [input_short(program, i) for i in dins]
            # the order of run arguments is free (bound by name): a generated permutation of parameters and inputs
            sig_names = pnames + shorts
            perm = t.get('sig_perm')
            if perm and sorted(perm) == list(range(len(sig_names))):
                sig_names = [sig_names[k] for k in perm]
            sig = ', '.join(['self'] + sig_names)
            lines.append(f'    def run({sig}) -> {ann}:')
            pd = '{' + ', '.join(f'{n!r}: {n}' for n in pnames) + '}'
            lines.append(f'        return _rt.compute(self, {pd}, _rt.gather_args(self, [{", ".join(shorts)}]))')
        else:
            unread = tuple(t.get('unread') or ()) if t['style'] == 'index' else ()
            if unread:
                # parameters as run arguments, inputs through the registry - and not all of them are read
                lines.append(f'    def run({", ".join(["self"] + pnames)}) -> {ann}:')
                pd = '{' + ', '.join(f'{n!r}: {n}' for n in pnames) + '}'
                lines.append(f'        return _rt.compute(self, {pd}, _rt.gather_index(self, {len(dins)}, skip={unread!r}))')
                lines.append('')
                continue
            lines.append(f'    def run(self) -> {ann}:')
            pd = '{' + ', '.join(f'{n!r}: self.params[{n!r}]' for n in pnames) + '}'
            if t['style'] == 'index':
                lines.append(f'        return _rt.compute(self, {pd}, _rt.gather_index(self, {len(dins)}))')
            else:
                lines.append(f'        return _rt.compute(self, {pd}, _rt.gather_all(self))')
        lines.append('')
    return '\n'.join(lines) + '\n'


class Loaded:
    def __init__(self, program):
        self.program = program
        self.pkg = pkg_name(program)
        self.names = []
        self.classes = {}

    def unload(self):
        for n in self.names:
            sys.modules.pop(n, None)
        # drop the task loggers created for this program's tasks (they hold handlers and file descriptors)
        mgr = logging.Logger.manager
        for name in [n for n in list(mgr.loggerDict) if n.startswith('task_')]:
            lg = mgr.loggerDict.pop(name, None)
            if isinstance(lg, logging.Logger):
                for h in list(lg.handlers):
                    lg.removeHandler(h)
                    if isinstance(h, logging.FileHandler):
                        try:
                            h.close()
                        except Exception:
                            pass


def _register(name, source=None, is_pkg=False):
    m = types.ModuleType(name)
    m.__file__ = f'<{name}>'
    if is_pkg:
        m.__path__ = []
    sys.modules[name] = m
    if '.' in name:
        parent, _, child = name.rpartition('.')
        setattr(sys.modules[parent], child, m)
    if source is not None:
        m.__tcv_source__ = source
        exec(compile(source, f'<{name}>', 'exec'), m.__dict__)
    return m


def load_program(program):
    ld = Loaded(program)
    pkg = ld.pkg
    if pkg in sys.modules:
        # same program already loaded (e.g. by another live case): reuse
        ld.names = [n for n in sys.modules if n == pkg or n.startswith(pkg + '.')]
    else:
        _register(pkg, is_pkg=True)
        ld.names.append(pkg)
        _register(f'{pkg}.objs', objs_source())
        ld.names.append(f'{pkg}.objs')
        subs = set()
        for mi, mod in enumerate(program['modules']):
            if mod['sub'] and mod['sub'] not in subs:
                subs.add(mod['sub'])
                _register(f'{pkg}.{mod["sub"]}', is_pkg=True)
                ld.names.append(f'{pkg}.{mod["sub"]}')
            name = module_path(program, mi)
            _register(name, module_source(program, mi))
            ld.names.append(name)
    for mi, mod in enumerate(program['modules']):
        m = sys.modules[module_path(program, mi)]
        for t in mod['tasks']:
            ld.classes[(mi, t['cls'])] = getattr(m, t['cls'])
    return ld


def sources(program):
    out = {f'{pkg_name(program)}.objs': '(parameter-object classes Oa, Ob; MemValue)'}
    for mi in range(len(program['modules'])):
        out[module_path(program, mi)] = module_source(program, mi)
    return out


# ---- configuration files -----------------------------------------------------------------------------

def materialise_value(program, v):
    """Turn generator-level values into config data (object definitions get their class path)."""
    if isinstance(v, dict):
        if '__object__' in v:
            return {'class': f'{pkg_name(program)}.objs.{v["__object__"]}',
                    'args': [materialise_value(program, x) for x in v.get('args', [])],
                    'kwargs': {k: materialise_value(program, x) for k, x in v.get('kwargs', {}).items()}}
        return {k: materialise_value(program, x) for k, x in v.items()}
    if isinstance(v, list):
        return [materialise_value(program, x) for x in v]
    return v


def node_tasks(program, node):
    """(tasks strings, excluded strings) for a config node."""
    mi = node['module']
    if mi is None or node['tasks_how'] == 'none':
        return [], []
    mp = module_path(program, mi)
    mod = program['modules'][mi]
    concrete = [t for t in mod['tasks'] if not t['abstract']]
    how = node['tasks_how']
    if how == 'wild':
        return [f'{mp}.*'], []
    if how == 'list':
        names = [f'{mp}.{t["cls"]}' for t in concrete]
        return (names[::-1] if node.get('tasks_reversed') else names), []
    if how == 'list+excl':
        return [f'{mp}.*'], [f'{mp}.{c}' for c in node.get('excluded', [])]
    if how == 'explicit':
        return list(node['tasks']), list(node.get('excluded_tasks', []))
    raise ValueError(how)


def file_path(cfgdir, f):
    return Path(cfgdir) / f'{f["name"]}.{f["fmt"]}'


def use_string(case, cfgdir, u, own_file=None):
    f = case['files'][u['file']]
    if u.get('local') and own_file is not None and u['file'] == own_file:
        s = ''
    elif case.get('global_vars') and u.get('placeholder', True):
        s = '{CFGDIR}/' + f'{f["name"]}.{f["fmt"]}'
    else:
        s = str(file_path(cfgdir, f))
    if u.get('part'):
        s += '#' + u['part']
    if u.get('ns'):
        s += ' as ' + u['ns']
    return s


def node_data(case, cfgdir, node, own_file=None, key_order=None):
    program = case['program']
    data = {}
    tasks, excluded = node_tasks(program, node)
    if tasks or node['module'] is not None:
        data['tasks'] = tasks if len(tasks) != 1 or node.get('tasks_as_list', True) else tasks[0]
    if excluded:
        data['excluded_tasks'] = excluded
    if node['uses']:
        us = [use_string(case, cfgdir, u, own_file) for u in node['uses']]
        data['uses'] = us if len(us) != 1 or node.get('uses_as_list', True) else us[0]
    for k, v in node['values'].items():
        data[k] = materialise_value(program, v)
    if node.get('hrn'):
        data['human_readable_data_name'] = node['hrn']
    if node.get('main_part'):
        data['main_part'] = True
    if key_order == 'reversed':
        data = {k: data[k] for k in reversed(list(data))}
    return data


def dump(data, fmt):
    if fmt == 'json':
        return json.dumps(data, indent=1)
    import yaml
    # equal sub-containers become one shared object, so the YAML text uses anchors / aliases (&id001 / *id001) and the
    # library loads shared objects - a representation detail that must not matter
    pool = {}

    def share(x):
        if isinstance(x, list):
            y = [share(e) for e in x]
        elif isinstance(x, dict):
            y = {k: share(e) for k, e in x.items()}
        else:
            return x
        if not y:
            return y
        return pool.setdefault(json.dumps(y, sort_keys=True, default=repr) + type(y).__name__ + repr(list(y)), y)
    return yaml.safe_dump(share(data), sort_keys=False, allow_unicode=True)


def load_back(text, fmt):
    if fmt == 'json':
        return json.loads(text)
    import yaml
    return yaml.load(text, Loader=yaml.Loader)


class BadEmit(Exception):
    """The emitted file does not load back to the intended data (generator self-check): the example is discarded."""


def write_files(case, cfgdir):
    cfgdir = Path(cfgdir)
    cfgdir.mkdir(parents=True, exist_ok=True)
    from tcv.eq import canon
    for fi, f in enumerate(case['files']):
        if f.get('parts'):
            data = {'configs': {pn: node_data(case, cfgdir, pnode, fi, f.get('key_order'))
                                for pn, pnode in f['parts'].items()}}
        else:
            data = node_data(case, cfgdir, f['node'], fi, f.get('key_order'))
        text = dump(data, f['fmt'])
        if canon(load_back(text, f['fmt'])) != canon(data):
            raise BadEmit(f['name'])
        p = file_path(cfgdir, f)
        p.parent.mkdir(parents=True, exist_ok=True)
        p.write_text(text)
    return cfgdir


def context_layer_data(case, layer):
    program = case['program']
    d = {k: materialise_value(program, v) for k, v in layer['global'].items()}
    if layer['for_ns']:
        d['for_namespaces'] = {ns: {k: materialise_value(program, v) for k, v in e.items()}
                               for ns, e in layer['for_ns'].items()}
    return d


def make_context(case, cfgdir, pool=None):
    """pool: {content digest: dict} - when given, dict layers with equal content are the SAME caller-owned object across
    calls (a user defines a context dict once and passes it, alone or in lists, to several configs)."""
    ctx = case.get('context')
    if not ctx:
        return None
    from tcv.eq import canon
    out = []
    counter = [0]

    def emit_nested(layer, d):
        uses = []
        for sub in layer.get('nested', []):
            sd = context_layer_data(case, sub['layer'])
            emit_nested(sub['layer'], sd)
            fmt = 'json' if sub['layer']['form'] == 'file_json' else 'yaml'
            counter[0] += 1
            sp = Path(cfgdir) / f'subcontext{counter[0]}.{fmt}'
            text = dump(sd, fmt)
            if canon(load_back(text, fmt)) != canon(sd):
                raise BadEmit('context')
            sp.write_text(text)
            base = ('{CFGDIR}/' + sp.name) if case.get('global_vars') else str(sp)
            uses.append(base + (f' as {sub["ns"]}' if sub.get('ns') else ''))
        if uses:
            d['uses'] = uses if len(uses) > 1 or counter[0] % 2 else uses[0]

    for li, layer in enumerate(ctx['layers']):
        d = context_layer_data(case, layer)
        emit_nested(layer, d)
        if layer['form'] == 'dict':
            if pool is not None:
                d = pool.setdefault(json.dumps(canon(d), sort_keys=True, default=repr), d)
            out.append(d)
        else:
            fmt = 'json' if layer['form'] == 'file_json' else 'yaml'
            p = Path(cfgdir) / f'context{li}.{fmt}'
            text = dump(d, fmt)
            if canon(load_back(text, fmt)) != canon(d):
                raise BadEmit('context')
            p.write_text(text)
            out.append(str(p) if li % 2 == 0 else p)
    if ctx.get('as_list', True) or len(out) > 1:
        return out
    return out[0]


def make_global_vars(case, cfgdir):
    gv = case.get('global_vars')
    if not gv:
        return None
    vals = {k: v for k, v in gv.items() if k != 'as_object'}
    vals['CFGDIR'] = str(cfgdir)
    if gv.get('as_object'):
        return types.SimpleNamespace(**vals)
    return vals


_DEFAULT = object()


def make_config(case, base_dir, cfgdir, root=None, part=None, context=_DEFAULT, ctx_pool=None, root_name=None):
    import taskchain
    rf = case['files'][case['root'] if root is None else root]
    path = file_path(cfgdir, rf)
    part = part if part is not None else case.get('root_part')
    kw = {}
    if part and case.get('root_part_style') == 'arg':
        kw['part'] = part
        fp = path
    elif part:
        fp = f'{path}#{part}'
    else:
        fp = path
    ctx = make_context(case, cfgdir, ctx_pool) if context is _DEFAULT else context
    ri = case['root'] if root is None else root
    if case.get('uses_as_objects') and not part and not rf.get('parts') and rf['node']['uses']:
        # the same tree with the root given as Config(data=...) whose `uses` holds Config OBJECTS (each a fresh object,
        # built from the file the string form names, under the namespace the string form gives)
        gv = make_global_vars(case, cfgdir)
        data = node_data(case, cfgdir, rf['node'], ri, rf.get('key_order'))
        objs = []
        for u in rf['node']['uses']:
            uf = case['files'][u['file']]
            up = str(file_path(cfgdir, uf)) + (('#' + u['part']) if u.get('part') else '')
            objs.append(taskchain.Config(Path(base_dir), up, namespace=u.get('ns') or None, global_vars=gv))
        data['uses'] = objs
        return taskchain.Config(Path(base_dir), name=rf['name'].split('/')[-1], data=data, global_vars=gv, context=ctx)
    if root_name is not None:
        kw['name'] = root_name    # an explicit config name instead of the file's stem
    return taskchain.Config(Path(base_dir), fp, global_vars=make_global_vars(case, cfgdir), context=ctx, **kw)
