"""Runner: tiers, seeds, sharding, evidence, VIOLATION / KNOWN-FINDING lines.

    python -m tcv.run <ID> --tier quick|thorough
    python -m tcv.run <ID> --replay <file>

A property module (tcv/props/<ID>.py) provides

    LEVEL         'exploration' | 'fault_enumeration'
    RULE          text: how cases are generated and what makes one non-trivial
    ASSUMPTIONS   list of str
    FINDINGS      {finding_id: Finding}      (optional; see tcv.findings)
    plan(tier)    -> list of shard descriptors (plain dicts, each with a 'kind')
    run_shard(shard, seed, tier, rec)   fills the Recorder `rec`
    replay(case, rec)                   re-runs one saved case without Hypothesis
"""
import argparse
import hashlib
import importlib
import json
import multiprocessing
import os
import sys
import tempfile
import time
import traceback
from pathlib import Path

ROOT = Path(__file__).resolve().parent.parent
MAX_PROCS = 16


def _src_dir():
    return os.environ.get('TCV_SRC') or '/repo/src'


def _setup_path():
    src = _src_dir()
    if src in sys.path:
        sys.path.remove(src)
    sys.path.insert(0, src)


def shard_seed(pid, seed, k):
    h = hashlib.sha256(f'{pid}|{seed}|{k}'.encode()).digest()
    return int.from_bytes(h[:8], 'big')


def _run_one_shard(arg):
    pid, shard, seed, tier, k, logdir = arg
    # everything a shard prints (tqdm bars, library warnings, hypothesis reports) goes to a log file:
    # only the runner writes to stdout, so VIOLATION lines can only be the runner's own verdict
    logpath = os.path.join(logdir, f'shard{k}.log')
    fd = os.open(logpath, os.O_WRONLY | os.O_CREAT | os.O_TRUNC, 0o644)
    sys.stdout.flush()
    sys.stderr.flush()
    os.dup2(fd, 1)
    os.dup2(fd, 2)
    os.close(fd)
    from tcv import hyp
    rec = hyp.Recorder(pid, shard_index=k)
    t0 = time.time()
    try:
        _setup_path()
        mod = importlib.import_module(f'tcv.props.{pid}')
        rec.findings = getattr(mod, 'FINDINGS', {})
        rec.open_ids = hyp.open_finding_ids(pid)
        if shard.get('kind') == '__regressions__':
            _run_regressions(mod, shard, rec)
        else:
            mod.run_shard(shard, shard_seed(pid, seed, k), tier, rec)
    except BaseException:
        rec.harness_errors.append(traceback.format_exc())
    out = rec.summary()
    out['shard'] = shard
    out['wall_s'] = time.time() - t0
    try:
        with open(logpath, 'rb') as f:
            f.seek(0, 2)
            size = f.tell()
            f.seek(max(0, size - 4000))
            out['log_tail'] = f.read().decode('utf-8', 'replace')
    except OSError:
        out['log_tail'] = ''
    sys.stdout.flush()
    sys.stderr.flush()
    return out


def _run_regressions(mod, shard, rec):
    """Replay tier: saved minimal cases (regressions/<ID>/*.json: the shrunk failing case of every repaired defect and of
    every seeded change that was caught), evaluated by the property's own oracle WITHOUT Hypothesis."""
    from tcv import hyp
    for path in shard['files']:
        doc = json.loads(Path(path).read_text())
        try:
            with hyp.quiet_output():
                mod.replay(doc, rec)
        except hyp.Violation as v:
            if isinstance(v.detail, dict):
                v.detail = dict(v.detail, regression_file=os.path.basename(path))
            rec.fail_now(doc.get('case'), v, kind=doc.get('kind'))
        except hyp.Inconclusive as e:
            rec.inconclusive.append(str(e))
        except Exception as e:
            if type(e).__name__ not in ('OutOfDomain', 'BadEmit'):
                raise
            rec.exclude('regression-case-outside-the-domain:' + str(e)[:60])   # (the model's domain was narrowed since)
        rec.cls('regression-replays')


def _merge(summaries):
    m = {
        'evaluations': 0,
        'nontrivial': set(),
        'classes': {},
        'samples': [],
        'failures': [],
        'known': {},
        'excluded': {},
        'harness_errors': [],
        'inconclusive': [],
        'exhaustive': {},
        'extra': {},
    }
    for s in summaries:
        m['evaluations'] += s['evaluations']
        m['nontrivial'].update(s['nontrivial'])
        for k, v in s['classes'].items():
            m['classes'][k] = m['classes'].get(k, 0) + v
        for k, v in s['excluded'].items():
            m['excluded'][k] = m['excluded'].get(k, 0) + v
        m['samples'].extend(s['samples'])
        m['failures'].extend(s['failures'])
        for fid, info in s['known'].items():
            cur = m['known'].setdefault(fid, {'count': 0, 'first_case': None, 'detail': None})
            cur['count'] += info['count']
            if cur['first_case'] is None:
                cur['first_case'] = info['first_case']
                cur['detail'] = info['detail']
        m['harness_errors'].extend(s['harness_errors'])
        m['inconclusive'].extend(s['inconclusive'])
        for k, v in s['exhaustive'].items():
            cur = m['exhaustive'].setdefault(k, {'evaluations': 0, 'complete': True})
            cur['evaluations'] += v['evaluations']
            cur['complete'] = cur['complete'] and v['complete']
        for k, v in s.get('extra', {}).items():
            if isinstance(v, (int, float)) and not isinstance(v, bool):
                m['extra'][k] = m['extra'].get(k, 0) + v
            else:
                m['extra'].setdefault(k, v)
    return m


def _digest(obj):
    return hashlib.sha256(json.dumps(obj, sort_keys=True, default=str).encode()).hexdigest()[:16]


def _write_replay(pid, failure):
    d = ROOT / 'replays' / pid
    d.mkdir(parents=True, exist_ok=True)
    doc = {
        'property': pid,
        'clause': failure['clause'],
        'detail': failure['detail'],
        'kind': failure.get('kind'),
        'case': failure['case'],
    }
    path = d / f'{_digest([failure["clause"], failure["case"]])}.json'
    path.write_text(json.dumps(doc, indent=1, default=str))  # key order is significant (mapping-order cases)
    return path.relative_to(ROOT)


def write_evidence(pid, mod, tier, seed, merged, wall, violations, exhaustive_all=False):
    samples = merged['samples']
    # keep a bounded, varied sample list: prefer non-trivial ones, one per class where possible
    picked, seen = [], set()
    for s in samples:
        key = s.get('class_key') if isinstance(s, dict) else None
        if key in seen:
            continue
        seen.add(key)
        picked.append(s)
        if len(picked) >= 8:
            break
    for s in samples:
        if len(picked) >= 8:
            break
        if s not in picked:
            picked.append(s)
    coverage = {
        'evaluations': merged['evaluations'],
        'distinct_nontrivial': len(merged['nontrivial']),
        'rule': mod.RULE,
        'samples': picked,
        'classes': dict(sorted(merged['classes'].items())),
        'excluded_by_construction': merged['excluded'],
        'known_findings_hit': {k: v['count'] for k, v in merged['known'].items()},
        'exhaustive_subspaces': merged['exhaustive'],
        'exhaustive': bool(exhaustive_all),
        'inconclusive': merged['inconclusive'][:10],
        'source_under_test': _src_dir(),
    }
    coverage.update(merged['extra'])
    doc = {
        'property_id': pid,
        'tier': tier,
        'seed': seed,
        'level': mod.LEVEL,
        'coverage': coverage,
        'assumptions': list(mod.ASSUMPTIONS),
        'wall_s': round(wall, 2),
        'violations': violations,
    }
    # runs against a scratch copy (TCV_SRC, used for sensitivity tests) never touch the real evidence
    d = ROOT / ('evidence-scratch' if os.environ.get('TCV_SRC') else 'evidence')
    d.mkdir(exist_ok=True)
    (d / f'{pid}.json').write_text(json.dumps(doc, indent=1, default=str))


def main(argv=None):
    ap = argparse.ArgumentParser()
    ap.add_argument('pid')
    ap.add_argument('--tier', default=os.environ.get('VERIF_TIER') or 'quick', choices=['quick', 'thorough'])
    ap.add_argument('--replay')
    ap.add_argument('--procs', type=int, default=MAX_PROCS)
    args = ap.parse_args(argv)
    pid = args.pid
    try:
        seed = int(os.environ.get('VERIF_SEED', '1') or '1')
    except ValueError:
        seed = 1

    _setup_path()
    from tcv import hyp

    try:
        mod = importlib.import_module(f'tcv.props.{pid}')
    except Exception:
        traceback.print_exc()
        print(f'HARNESS-ERROR property={pid} cannot import check module')
        return 2

    if args.replay:
        return _replay(pid, mod, args.replay)

    t0 = time.time()
    shards = mod.plan(args.tier)
    scale = os.environ.get('TCV_SCALE')
    if scale:
        # development aid: the same plan with every random campaign's example count scaled (e.g. a tenth of `thorough`)
        for sh in shards:
            for k in ('examples', 'limit', 'values'):
                if isinstance(sh.get(k), int):
                    sh[k] = max(1, int(sh[k] * float(scale)))
    logdir = tempfile.mkdtemp(prefix=f'tcv-{pid}-log-')
    reg = sorted(str(p) for p in (ROOT / 'regressions' / pid).glob('*.json'))
    if reg:
        n = min(4, len(reg))
        shards = list(shards) + [{'kind': '__regressions__', 'files': reg[i::n]} for i in range(n)]
    work = [(pid, sh, seed, args.tier, k, logdir) for k, sh in enumerate(shards)]
    nproc = max(1, min(args.procs, len(work)))
    ctx = multiprocessing.get_context('fork')
    summaries = []
    # maxtasksperchild=1: every shard is a fresh process (no state leaks between shards)
    with ctx.Pool(nproc, maxtasksperchild=1) as pool:
        for s in pool.imap_unordered(_run_one_shard, work, chunksize=1):
            summaries.append(s)
    merged = _merge(summaries)
    wall = time.time() - t0

    # known findings: deterministic reproducers + hits during generation
    open_ids = hyp.open_finding_ids(pid)
    findings = getattr(mod, 'FINDINGS', {})
    known_lines = []
    for fid in sorted(open_ids):
        f = findings.get(fid)
        if f is None:
            continue
        hit = merged['known'].get(fid)
        still = None
        try:
            still = f.reproduce() if f.reproduce else None
        except Exception:
            merged['harness_errors'].append('reproducer %s: %s' % (fid, traceback.format_exc()))
        if still or (hit and hit['count']):
            known_lines.append(f'KNOWN-FINDING: property={pid} id={fid} {f.what}')
            if hit and hit.get('first_case') is not None:
                _write_replay(pid, {'clause': 'known:' + fid, 'detail': hit['detail'], 'case': hit['first_case'],
                                    'kind': hit.get('kind')})

    # unlisted failures -> VIOLATION lines (one per bucket)
    viol_lines, seen = [], set()
    for fl in merged['failures']:
        b = fl['clause']
        if b in seen:
            continue
        seen.add(b)
        path = _write_replay(pid, fl)
        viol_lines.append((f'VIOLATION property={pid} replay={path}', fl))

    exhaustive_all = getattr(mod, 'EXHAUSTIVE_ALL', False) and all(
        v['complete'] for v in merged['exhaustive'].values()) and bool(merged['exhaustive'])
    try:
        write_evidence(pid, mod, args.tier, seed, merged, wall, len(viol_lines), exhaustive_all)
    except Exception:
        merged['harness_errors'].append('evidence: ' + traceback.format_exc())

    print(f'[{pid}] tier={args.tier} seed={seed} shards={len(shards)} evaluations={merged["evaluations"]} '
          f'distinct_nontrivial={len(merged["nontrivial"])} wall={wall:.1f}s')
    cl = merged['classes']
    if cl:
        print(f'[{pid}] classes: ' + ', '.join(f'{k}={v}' for k, v in sorted(cl.items())))
    if merged['excluded']:
        print(f'[{pid}] excluded: ' + ', '.join(f'{k}={v}' for k, v in sorted(merged['excluded'].items())))
    for line in known_lines:
        print(line)
    for line, fl in viol_lines:
        print(f'[{pid}] violated clause: {fl["clause"]} :: {_brief(fl["detail"])}')
        print(line)
    if merged['inconclusive']:
        print(f'[{pid}] inconclusive: {len(merged["inconclusive"])} (first: {str(merged["inconclusive"][0])[:300]})')
    if merged['harness_errors']:
        print(f'[{pid}] HARNESS-ERROR ({len(merged["harness_errors"])}):')
        print(merged['harness_errors'][0][-3000:])
    import shutil
    shutil.rmtree(logdir, ignore_errors=True)
    if viol_lines:
        return 1
    if merged['harness_errors']:
        return 2
    if merged['inconclusive'] and merged['evaluations'] == 0:
        return 2
    return 0


def _brief(detail, n=700):
    if isinstance(detail, dict):
        detail = {k: v for k, v in detail.items() if k not in ('case', 'history', 'base', 'rewritten')}
    return str(detail)[:n]


def _replay(pid, mod, path):
    from tcv import hyp
    doc = json.loads(Path(path).read_text())
    rec = hyp.Recorder(pid, shard_index=0)
    rec.findings = getattr(mod, 'FINDINGS', {})
    rec.open_ids = set()  # a replay shows the raw verdict, known or not
    try:
        with hyp.quiet_output():
            mod.replay(doc, rec)
    except hyp.Violation as v:
        rec.failures.append({'clause': v.clause, 'detail': v.detail, 'case': doc.get('case')})
    except Exception as e:
        if type(e).__name__ in ('OutOfDomain', 'BadEmit'):
            print(f'[{pid}] replay of {path}: the case is outside the generated domain ({e}): nothing is asserted')
            return 0
        traceback.print_exc()
        print(f'HARNESS-ERROR property={pid} replay raised')
        return 2
    if rec.failures:
        fl = rec.failures[0]
        print(f'[{pid}] violated clause: {fl["clause"]} :: {_brief(fl["detail"], 2000)}')
        print(f'VIOLATION property={pid} replay={path}')
        return 1
    print(f'[{pid}] replay of {path}: property holds on this case')
    return 0


if __name__ == '__main__':
    sys.exit(main())
