"""Hypothesis profiles, the case recorder, the Violation type and known-finding handling."""
import contextlib
import hashlib
import json
import os
import re
import shutil
import sys
import tempfile
from pathlib import Path

import hypothesis
from hypothesis import HealthCheck, Phase, Verbosity, given, settings
from hypothesis import seed as hseed

ROOT = Path(__file__).resolve().parent.parent


class Violation(Exception):
    """Raised by an oracle.  `clause` names the oracle clause (the failure bucket), `detail` is free text/JSON."""

    def __init__(self, clause, detail=None):
        super().__init__(f'{clause}: {detail}')
        self.clause = clause
        self.detail = detail


class Inconclusive(Exception):
    """A harness safety net fired (stuck thread, dead child): no verdict for this case."""


class Finding:
    """A known (open) finding: `match(case, violation) -> bool` must be specific to the failing input/site;
    `reproduce() -> bool` is a direct reproducer (True = still fails)."""

    def __init__(self, what, match, reproduce=None):
        self.what = what
        self.match = match
        self.reproduce = reproduce


def open_finding_ids(pid):
    """ids of `open:` records for this property in known-findings.txt (never written at run time)."""
    ids = set()
    p = ROOT / 'known-findings.txt'
    if not p.exists():
        return ids
    for line in p.read_text().splitlines():
        m = re.match(r'\s*open:\s+property=(\S+)\s+id=(\S+)', line)
        if m and m.group(1) == pid:
            ids.add(m.group(2))
    return ids


def digest(obj):
    return hashlib.sha256(json.dumps(obj, sort_keys=True, default=repr).encode()).hexdigest()[:16]


class Recorder:
    def __init__(self, pid, shard_index=0):
        self.pid = pid
        self.shard_index = shard_index
        self.evaluations = 0
        self.nontrivial = set()
        self.classes = {}
        self.samples = []
        self.failures = []
        self.known = {}
        self.excluded = {}
        self.harness_errors = []
        self.inconclusive = []
        self.exhaustive = {}
        self.extra = {}
        self.findings = {}
        self.open_ids = set()
        self.excluded_buckets = set()
        self._last_failure = None
        self._sample_keys = set()
        self.max_samples = 6

    # ---- counting ---------------------------------------------------------------------------
    def case(self, case, nontrivial=False, classes=(), sample=None, key=None):
        """Count one evaluated case.  `nontrivial` per the property's stated rule; `classes` for the histogram."""
        self.evaluations += 1
        if nontrivial:
            self.nontrivial.add(key if key is not None else digest(case))
        for c in classes:
            self.classes[c] = self.classes.get(c, 0) + 1
        ck = '|'.join(sorted(classes)) + ('|NT' if nontrivial else '')
        if nontrivial and ck not in self._sample_keys and len(self.samples) < self.max_samples:
            self._sample_keys.add(ck)
            self.samples.append({'class_key': ck, 'case': sample if sample is not None else case})

    def count(self, n=1, classes=()):
        self.evaluations += n
        for c in classes:
            self.classes[c] = self.classes.get(c, 0) + n

    def cls(self, name, n=1):
        self.classes[name] = self.classes.get(name, 0) + n

    def exclude(self, name, n=1):
        self.excluded[name] = self.excluded.get(name, 0) + n

    def mark_exhaustive(self, name, evaluations, complete=True):
        cur = self.exhaustive.setdefault(name, {'evaluations': 0, 'complete': True})
        cur['evaluations'] += evaluations
        cur['complete'] = cur['complete'] and complete

    # ---- failures ---------------------------------------------------------------------------
    def known_id(self, case, violation):
        for fid in self.open_ids:
            f = self.findings.get(fid)
            if f is None:
                continue
            try:
                if f.match(case, violation):
                    return fid
            except Exception:
                continue
        return None

    def handle(self, case, violation, kind=None):
        """Called when an oracle raised on `case`.  Returns True if the failure is swallowed
        (known finding or already-reported bucket), False if it must propagate (to be shrunk / reported)."""
        fid = self.known_id(case, violation)
        if fid is not None:
            cur = self.known.setdefault(fid, {'count': 0, 'first_case': case, 'detail': violation.detail, 'kind': kind})
            cur['count'] += 1
            return True
        if violation.clause in self.excluded_buckets:
            self.exclude('bucket:' + violation.clause)
            return True
        self._last_failure = {'clause': violation.clause, 'detail': violation.detail, 'case': case, 'kind': kind}
        return False

    def fail_now(self, case, violation, kind=None):
        """For enumerations (no shrinking): record the failure directly unless known/duplicate bucket."""
        if self.handle(case, violation, kind):
            return
        self.failures.append(self._last_failure)
        self.excluded_buckets.add(violation.clause)

    def summary(self):
        return {
            'evaluations': self.evaluations,
            'nontrivial': sorted(self.nontrivial),
            'classes': self.classes,
            'samples': self.samples,
            'failures': self.failures,
            'known': self.known,
            'excluded': self.excluded,
            'harness_errors': self.harness_errors,
            'inconclusive': self.inconclusive,
            'exhaustive': self.exhaustive,
            'extra': self.extra,
        }


def run_given(rec, strategy, body, seed, max_examples, kind=None, max_buckets=3, shrink=True, to_case=None,
              shrink_budget=None):
    """Drive `body(value)` with Hypothesis over `strategy`.

    `body` evaluates one case: it must call rec.case(...) itself and raise Violation when an oracle fails.
    Failures are bucketed by clause; after a bucket is found (and shrunk) the campaign is repeated with the
    bucket excluded so that further root causes are still searched (at most `max_buckets`)."""
    to_case = to_case or (lambda v: v)
    phases = [Phase.generate, Phase.target] + ([Phase.shrink] if shrink else [])
    if shrink_budget is None:
        shrink_budget = int(os.environ.get('TCV_SHRINK_BUDGET', '250'))

    for attempt in range(max_buckets + 1):
        rec._last_failure = None
        stt = {'since_failure': None, 'best': None}

        def test(value):
            # bounded shrinking: after `shrink_budget` executions following the first failure only the best failing
            # case found so far is still evaluated (the shrinker then converges at once); verdicts never depend on it
            if stt['since_failure'] is not None:
                stt['since_failure'] += 1
                if stt['since_failure'] > shrink_budget and digest(to_case(value)) != stt['best']:
                    return
            try:
                body(value)
            except Violation as v:
                case = to_case(value)
                if rec.handle(case, v, kind):
                    return
                if stt['since_failure'] is None:
                    stt['since_failure'] = 0
                stt['best'] = digest(case)
                raise
            except Inconclusive as e:
                rec.inconclusive.append(str(e))
                return
            except Exception as e:
                if type(e).__name__ in ('OutOfDomain', 'BadEmit'):
                    rec.exclude(type(e).__name__ + ':' + str(e)[:60])
                    return
                raise

        st = settings(
            max_examples=max_examples,
            database=None,
            deadline=None,
            derandomize=False,
            report_multiple_bugs=False,
            phases=phases,
            suppress_health_check=list(HealthCheck),
            verbosity=Verbosity.quiet,
            print_blob=False,
        )
        wrapped = hseed(seed + attempt)(st(given(strategy)(test)))
        try:
            wrapped()
            return
        except Violation:
            fl = rec._last_failure
            if fl is None:
                raise
            rec.failures.append(fl)
            rec.excluded_buckets.add(fl['clause'])
            if attempt >= max_buckets - 1:
                return
        except hypothesis.errors.Flaky as e:  # includes FlakyFailure / FlakyStrategyDefinition
            fl = rec._last_failure
            if fl is not None:
                fl = dict(fl)
                fl['detail'] = f'(flaky under shrinking) {fl["detail"]}'
                rec.failures.append(fl)
                rec.excluded_buckets.add(fl['clause'])
                if attempt >= max_buckets - 1:
                    return
            else:
                rec.harness_errors.append('hypothesis flaky: %r' % (e,))
                return


# ---- scratch space and output hygiene -----------------------------------------------------------

_SCRATCH = []


def scratch_dir(prefix='tcv-'):
    d = tempfile.mkdtemp(prefix=prefix)
    _SCRATCH.append(d)
    return Path(d)


def drop_scratch(d):
    shutil.rmtree(str(d), ignore_errors=True)
    try:
        _SCRATCH.remove(str(d))
    except ValueError:
        pass


def _cleanup():
    for d in list(_SCRATCH):
        shutil.rmtree(d, ignore_errors=True)


import atexit  # noqa: E402

atexit.register(_cleanup)


@contextlib.contextmanager
def quiet_output():
    """Send fd 1/2 to /dev/null for the duration (library prints, tqdm bars); restore afterwards."""
    sys.stdout.flush()
    sys.stderr.flush()
    o1, o2 = os.dup(1), os.dup(2)
    dn = os.open(os.devnull, os.O_WRONLY)
    os.dup2(dn, 1)
    os.dup2(dn, 2)
    try:
        yield
    finally:
        sys.stdout.flush()
        sys.stderr.flush()
        os.dup2(o1, 1)
        os.dup2(o2, 2)
        os.close(o1)
        os.close(o2)
        os.close(dn)


def silence_library_logging():
    import logging
    logging.getLogger('cache').handlers[:] = [logging.NullHandler()]
    logging.getLogger('cache').propagate = False
    try:
        from taskchain import chain as _c
        _c.Chain.log_handler.setLevel(logging.CRITICAL + 10)
    except Exception:
        pass
    logging.getLogger().setLevel(logging.CRITICAL + 10)
