"""Fresh-interpreter helper:  python -m tcv.child keys <case.json> <cfgdir> <datadir>   -> JSON {task: key}"""
import json
import os
import sys


def main():
    cmd, casefile, cfgdir, datadir = sys.argv[1:5]
    from tcv import build, hyp
    case = json.load(open(casefile))
    hyp.silence_library_logging()
    build.load_program(case['program'])
    with hyp.quiet_output():
        chain = build.make_config(case, datadir, cfgdir).chain(parameter_mode=not case.get('name_mode'))
    if cmd == 'keys':
        out = {n: t.name_for_persistence for n, t in chain.tasks.items()}
    sys.stdout.write('\n' + json.dumps(out) + '\n')
    sys.stdout.flush()
    os._exit(0)


if __name__ == '__main__':
    main()
