"""Deterministic cooperative scheduler for C15: callers are real threads, but only one runs at a time and the harness
decides, at every yield point, which runnable caller moves next.

Yield points are placed (from the harness side, no hooks in the library):
  * taskchain.cache.FileLock is replaced by SchedLock: real flock semantics via non-blocking attempts; a caller that
    cannot get the lock is *blocked* (not runnable) until some caller releases a lock;
  * open() of a path under the cache directory returns FileProxy: yields after open (for 'w' the file is truncated at
    that moment), splits every write into 1-3 flushed chunks with a yield after each, yields before every read and at
    close;
  * the computer passed to get_or_compute yields when it is entered.
A schedule is the list of choices "index of the runnable caller that moves next".
"""
import builtins
import io
import os
import threading

from tcv.hyp import Inconclusive

_real_open = io.open


class Caller:
    def __init__(self, idx, fn):
        self.idx = idx
        self.fn = fn
        self.go = threading.Semaphore(0)
        self.state = 'new'      # new | ready | blocked | done
        self.at = None
        self.result = None
        self.error = None
        self.thread = None
        self.steps = 0


class Sched:
    def __init__(self, choices, chunks=2, stuck_s=20.0, segments=None):
        self.choices = list(choices)
        self.segments = [list(x) for x in segments] if segments is not None else None
        self.chunks = chunks
        self.callers = []
        self.back = threading.Semaphore(0)
        self.local = threading.local()
        self.trace = []          # (caller idx, yield point) in execution order
        self.events = []         # harness-level events for the oracle
        self.choice_log = []
        self.stuck_s = stuck_s
        self.open_writers = 0
        self.in_compute = 0
        self.clock = 0

    # ---- called from caller threads ---------------------------------------------------------------------
    def me(self):
        return getattr(self.local, 'caller', None)

    def event(self, kind, **kw):
        self.clock += 1
        c = self.me()
        self.events.append(dict(t=self.clock, kind=kind, caller=None if c is None else c.idx, **kw))

    def yield_point(self, name, blocked=False):
        c = self.me()
        if c is None:
            return
        c.at = name
        c.state = 'blocked' if blocked else 'ready'
        self.back.release()
        if not c.go.acquire(timeout=self.stuck_s):
            raise Inconclusive('scheduler did not resume a caller')
        c.state = 'running'

    def _run_caller(self, c):
        self.local.caller = c
        if not c.go.acquire(timeout=self.stuck_s):
            return
        c.state = 'running'
        try:
            c.result = c.fn()
        except BaseException as e:  # noqa
            c.error = e
        c.state = 'done'
        self.back.release()

    # ---- scheduler -----------------------------------------------------------------------------------------
    def run(self, fns):
        self.callers = [Caller(i, f) for i, f in enumerate(fns)]
        for c in self.callers:
            c.state = 'ready'
            c.at = 'start'
            c.thread = threading.Thread(target=self._run_caller, args=(c,), daemon=True)
            c.thread.start()
        k = 0
        while True:
            alive = [c for c in self.callers if c.state != 'done']
            if not alive:
                break
            runnable = [c for c in alive if c.state == 'ready']
            if not runnable:
                # everybody waits for a lock that nobody holds any more -> let them retry
                blocked = [c for c in alive if c.state == 'blocked']
                if not blocked:
                    raise Inconclusive('no runnable caller')
                for c in blocked:
                    c.state = 'ready'
                runnable = blocked
            if self.segments is not None:
                # preemption-bounded form: run caller seg[0] for seg[1] steps (as long as it is runnable), then the next
                while self.segments and (self.segments[0][1] <= 0 or
                                         self.callers[self.segments[0][0] % len(self.callers)].state == 'done'):
                    self.segments.pop(0)
                pick = None
                if self.segments:
                    want = self.segments[0][0] % len(self.callers)
                    for i, rc in enumerate(runnable):
                        if rc.idx == want:
                            pick = i
                            self.segments[0][1] -= 1
                    if pick is None:
                        self.segments.pop(0)  # the wanted caller waits for a lock: move on
                choice = pick if pick is not None else 0
            else:
                choice = self.choices[k] if k < len(self.choices) else 0
            k += 1
            c = runnable[choice % len(runnable)]
            self.choice_log.append((len(runnable), choice % len(runnable)))
            self.trace.append((c.idx, c.at))
            c.steps += 1
            c.go.release()
            if not self.back.acquire(timeout=self.stuck_s):
                raise Inconclusive('a caller did not reach its next yield point')
        for c in self.callers:
            c.thread.join(self.stuck_s)
        return self.callers

    def lock_released(self):
        for c in self.callers:
            if c.state == 'blocked':
                c.state = 'ready'


CURRENT = {'sched': None, 'root': None}


def make_lock_class(base):
    class SchedLock(base):
        def acquire(self, timeout=None, poll_interval=0.05, **kw):
            s = CURRENT['sched']
            if s is None or s.me() is None:
                return base.acquire(self, timeout, poll_interval, **kw)
            from filelock import Timeout
            s.yield_point('lock-acquire')
            eff = timeout if timeout is not None else getattr(self, 'timeout', -1)
            while True:
                try:
                    r = base.acquire(self, timeout=0, blocking=False)
                    s.event('lock-acquired')
                    s.yield_point('lock-acquired')
                    return r
                except Timeout:
                    if eff is not None and eff >= 0:
                        # a FINITE wait: the holder may keep the lock (it computes while holding it) for longer than
                        # any finite time, so such a wait can always expire
                        s.event('lock-wait-expired')
                        raise
                    s.yield_point('lock-wait', blocked=True)

        def release(self, force=False):
            s = CURRENT['sched']
            r = base.release(self, force)
            if s is not None and s.me() is not None:
                s.event('lock-released')
                s.lock_released()
                s.yield_point('lock-released')
            return r

    return SchedLock


class FileProxy:
    def __init__(self, f, path, mode, sched):
        self._f, self._path, self._mode, self._s = f, path, mode, sched
        self._writing = any(m in mode for m in 'wax+')
        if self._writing:
            sched.open_writers += 1
            if sched.open_writers > 1:
                sched.event('VIOLATION-two-writers-have-the-file-open', path=path)
            sched.event('file-truncated' if 'w' in mode else 'file-opened-for-write', path=path)
        sched.yield_point('opened:' + ('w' if self._writing else 'r'))

    def write(self, data):
        n = len(data)
        parts = min(self._s.chunks, max(1, n))
        size = -(-n // parts) if n else 0
        done = 0
        while done < n:
            piece = data[done:done + size]
            self._f.write(piece)
            self._f.flush()
            done += len(piece)
            self._s.event('chunk-written', path=self._path, upto=done, of=n)
            self._s.yield_point('wrote-chunk')
        return n

    def read(self, *a):
        self._s.yield_point('before-read')
        return self._f.read(*a)

    def readline(self, *a):
        self._s.yield_point('before-read')
        return self._f.readline(*a)

    def readinto(self, b):
        self._s.yield_point('before-read')
        return self._f.readinto(b)

    def close(self):
        if not self._f.closed:
            self._f.close()
            if self._writing:
                self._s.open_writers -= 1
                self._s.event('file-write-closed', path=self._path)
            self._s.yield_point('closed')

    def __enter__(self):
        return self

    def __exit__(self, *exc):
        self.close()
        return False

    def __iter__(self):
        return iter(self._f)

    def __getattr__(self, name):
        return getattr(self._f, name)


def _patched_open(file, mode='r', *args, **kwargs):
    s, root = CURRENT['sched'], CURRENT['root']
    f = _real_open(file, mode, *args, **kwargs)
    try:
        p = os.fspath(file) if not isinstance(file, int) else None
    except TypeError:
        p = None
    if s is not None and s.me() is not None and p is not None and root and str(p).startswith(root) \
            and not str(p).endswith('.lock'):
        return FileProxy(f, str(p), mode, s)
    return f


class Patched:
    """Context manager installing the scheduler, the lock class and the open() wrapper."""

    def __init__(self, sched, root):
        self.sched, self.root = sched, str(root)

    def __enter__(self):
        import taskchain.cache as tc
        self._tc = tc
        self._old_lock = tc.FileLock
        if not getattr(tc.FileLock, '_tcv_sched', False):
            cls = make_lock_class(tc.FileLock)
            cls._tcv_sched = True
            tc.FileLock = cls
        self._old_open = (builtins.open, io.open)
        builtins.open = _patched_open
        io.open = _patched_open
        self._old_replace = os.replace

        def replace(src, dst, *a, **kw):
            r = self._old_replace(src, dst, *a, **kw)
            s_ = CURRENT['sched']
            if s_ is not None and s_.me() is not None and str(dst).startswith(self.root):
                s_.event('entry-replaced', path=str(dst), src=str(src))
            return r
        os.replace = replace
        CURRENT['sched'], CURRENT['root'] = self.sched, self.root
        return self

    def __exit__(self, *exc):
        CURRENT['sched'], CURRENT['root'] = None, None
        builtins.open, io.open = self._old_open
        os.replace = self._old_replace
        self._tc.FileLock = self._old_lock
        return False
