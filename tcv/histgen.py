"""Strategies for histories and the driver that runs a history against library + store model."""
import copy
import json

from hypothesis import strategies as st

from tcv import build, engine, gen, history, hyp, model, mutate
from tcv.hyp import Violation
from tcv.runtime import RT

CONFIG_ONLY = ['chg_value', 'chg_value', 'chg_value_deep', 'retag', 'chg_obj_arg', 'chg_context', 'drop_optional',
               'rename_files', 'perm_keys', 'fmt_swap', 'perm_uses', 'to_context', 'chg_default_param', 'swap_mounts',
               'swap_mounts', 'rename_mount', 'rename_mount', 'uses_objects',
               'uses_objects']


@st.composite
def variants_of(draw, base, n, kinds=None, force_plain=False):
    out = [base]
    base_kinds = kinds or CONFIG_ONLY
    for _ in range(n):
        src = draw(st.sampled_from(out))
        kinds = base_kinds
        if not force_plain and src.get('context') and draw(st.integers(0, 2)) == 0:
            # another context layer on top of the existing ones (often for a namespace they already address): the
            # caller-owned layer objects are shared by the chains of both variants
            kinds = ['chg_context']
        v, _prefix, labels = draw(mutate.rewrite(src, kinds, n_max=2))
        v['program'] = base['program']
        v['variant_labels'] = labels
        v['variant_of'] = [i for i, o in enumerate(out) if o is src][0]
        v.pop('cfgdir_of', None)   # (the rewriting works on a deep copy of src, which may carry src's own entry)
        same = lambda a, b: json.dumps(a, sort_keys=True, default=repr) == json.dumps(b, sort_keys=True, default=repr)  # noqa: E731
        # (text comparison: Python's == would take 0 for False and 1 for 1.0)
        if same(v['files'], src['files']) and same(v.get('global_vars'), src.get('global_vars')) and v['root'] == src['root']:
            # only the context differs: the SAME config files (one directory) are then used with another context
            v['cfgdir_of'] = src.get('cfgdir_of', v['variant_of'])
        out.append(v)
    return out


def _op_strategy(kinds_weighted, n_variants, allow_pm_false=False):
    slot = st.integers(0, 5)
    member = st.integers(0, 3)
    task = st.integers(0, 30)

    def mk(kind):
        if kind == 'chain':
            return st.builds(lambda v, r: {'op': 'chain', 'variant': v, 'pm': True, 'registry': r},
                             st.integers(0, n_variants - 1), st.sampled_from([None, None, None, 0, 0, 1]))
        if kind == 'multichain':
            return st.builds(lambda vs: {'op': 'multichain', 'variants': vs},
                             st.lists(st.integers(0, n_variants - 1), min_size=2, max_size=4))
        if kind == 'value':
            return st.builds(lambda s, m, t: {'op': 'value', 'slot': s, 'member': m, 'task': t}, slot, member, task)
        if kind == 'inspect':
            return st.builds(lambda s, m, w: {'op': 'inspect', 'slot': s, 'member': m, 'what': w}, slot, member,
                             st.sampled_from(history.INSPECTIONS))
        if kind == 'force_task':
            return st.builds(lambda s, m, t, d, r: dict({'op': 'force_task', 'slot': s, 'member': m, 'task': t, 'delete': d},
                                                        **({'reset_only': True} if r else {})),
                             slot, member, task, st.booleans(), st.integers(0, 4).map(lambda x: x == 0))
        if kind == 'force_chain':
            return st.builds(lambda s, m, ts, r, d, how, tm: {'op': 'force_chain', 'slot': s, 'member': m, 'tasks': ts,
                                                             'recompute': r, 'delete': d, 'as': how, 'through_multi': tm},
                             slot, member, st.lists(task, min_size=1, max_size=3), st.booleans(), st.booleans(),
                             st.sampled_from(['name', 'object', 'object', 'single', 'generator']), st.booleans())
        if kind == 'fault':
            return st.builds(lambda s, m, t, how: {'op': 'fault', 'slug_of': [s, m, t], 'n': 1, 'how': how}, slot, member, task,
                             st.sampled_from(['error', 'error', 'interrupt', 'save', 'mistyped']))
        if kind == 'restart':
            return st.just({'op': 'restart'})
        if kind == 'loglevel':
            return st.builds(lambda s, m, t, lv: {'op': 'loglevel', 'slot': s, 'member': m, 'task': t, 'level': lv},
                             slot, member, task, st.sampled_from(['WARNING', 'ERROR', 'CRITICAL', 'INFO', 'DEBUG']))
        raise ValueError(kind)

    pool = []
    for k, w in kinds_weighted.items():
        if k == 'session':
            pool += [st.just({'op': '__session__'})] * w
            continue
        pool += [mk(k)] * w
    return st.sampled_from(list(range(len(pool)))).flatmap(lambda i: pool[i])


@st.composite
def histories(draw, kinds_weighted, max_ops=20, n_variants=(1, 3), gen_kw=None, salt=False, session_kinds=None,
              name_mode=False, variant_kinds=None):
    gen_kw = dict(gen_kw or {})
    base = draw(gen.cases(**gen_kw))
    nv = draw(st.integers(*n_variants))
    # name mode (parameter_mode=False: a result's file name is the config's name).  Its documented limits: no contexts,
    # unique config names, no config mounted twice - so such a history uses ONE configuration for all its chains.
    nm = False
    # (name_mode: True = one history in six; an integer n = one in n)
    if name_mode and draw(st.integers(0, (5 if name_mode is True else int(name_mode) - 1))) == 0 and not base.get('context'):
        try:
            insts = model.compose(base)
            nm = len({(i.fi, i.part) for i in insts}) == len(insts)
        except model.ModelError:
            nm = False
    if nm:
        # name mode needs unique config names: every file of variant i is renamed to `<name>.nm<i>` (results of the
        # variants then sit side by side in the task directories, as `cfg.json`, `cfg.nm1.json`, ...); no contexts
        nv = min(nv, 2)
        variants = draw(variants_of(base, nv - 1, kinds=[k for k in CONFIG_ONLY if k not in ('chg_context', 'to_context')],
                                    force_plain=True)) if nv > 1 else [base]
        for i, v in enumerate(variants):
            if i:
                for f in v['files']:
                    f['name'] = f'{f["name"]}.nm{i}'
        # one more configuration for MultiChains in name mode: the base tree under ANOTHER ROOT file (same content, other
        # name) - its members then overlap in all the prerequisite configs, which are the very same files
        vr = copy.deepcopy(base)
        vr['files'][vr['root']]['name'] = vr['files'][vr['root']]['name'] + '.nmr'
        vr['variant_labels'] = ['root_copy']
        vr['cfgdir_of'] = 0
        variants = variants + [vr]
    else:
        variants = draw(variants_of(base, nv - 1, kinds=variant_kinds)) if nv > 1 else [base]
    ops = [{'op': 'chain', 'variant': 0, 'pm': not nm}]
    opst = _op_strategy(kinds_weighted, len(variants))
    n = draw(st.integers(3, max_ops))

    def adapt(op):
        if op['op'] in ('chain', 'multichain'):
            op['pm'] = not nm
        if nm and op['op'] == 'multichain':
            # members from different root files (the same file twice under made-up names is not a name-mode use)
            op['variants'] = [0, len(variants) - 1] if len(op['variants']) % 2 else [len(variants) - 1, 0]
        return op

    renamed = [(v['variant_of'], i) for i, v in enumerate(variants)
               if i and v.get('variant_labels') == ['rename_mount'] and 'variant_of' in v]
    for _ in range(n):
        op = draw(opst)
        if op['op'] == 'multichain' and renamed and draw(st.booleans()):
            # members that hold the same computations under differently named mounts
            a, b = draw(st.sampled_from(renamed))
            op['variants'] = [a, b] if draw(st.booleans()) else [b, a, a]
        if op['op'] == '__session__':
            sk = session_kinds or {'chain': 2, 'value': 5, 'inspect': 1}
            sops = [{'op': 'chain', 'variant': draw(st.integers(0, len(variants) - 1)), 'pm': not nm}]
            sops += [adapt(o) for o in draw(st.lists(_op_strategy(sk, len(variants)), min_size=1, max_size=5))]
            ops.append({'op': 'session', 'ops': sops})
        else:
            ops.append(adapt(op))
            if op['op'] == 'force_task' and op.get('delete') and not op.get('reset_only') \
                    and 'force_chain' in kinds_weighted and draw(st.integers(0, 2)) == 0:
                # the task's own result is gone, those of its dependants are still there: now force it through the
                # chain, with and without deleting (a forced closure whose root has nothing stored)
                ops.append({'op': 'force_chain', 'slot': op['slot'], 'member': op['member'], 'tasks': [op['task']],
                            'recompute': draw(st.booleans()), 'delete': draw(st.integers(0, 3)) != 0,
                            'as': draw(st.sampled_from(['name', 'object'])), 'through_multi': draw(st.booleans())})
    h = {'program': base['program'], 'variants': variants, 'ops': ops, 'salt': salt}
    if nm:
        h['name_mode'] = True
    return h


def describe(hist):
    d = {'modules': build.sources(hist['program']), 'variants': []}
    for v in hist['variants']:
        dv = engine.describe(v)
        dv.pop('modules', None)
        d['variants'].append(dv)
    d['ops'] = hist['ops']
    return d


class Outcome:
    def __init__(self):
        self.steps = []
        self.model = None
        self.other = []


def run_history(hist, zygote=None, flags=False, relevant=None, on_step=None, keep_going=False):
    """Execute the history, verifying every step with the store model.  Raises Violation (only clauses in
    `relevant`, if given; other deviations end the evaluation quietly and are reported in the outcome)."""
    out = Outcome()
    root = hyp.scratch_dir('tcv-hist-')
    loaded = None
    try:
        hyp.silence_library_logging()
        RT.reset()
        RT.salt_seq = bool(hist.get('salt'))
        if hist.get('records'):
            from tcv import records
            RT.hooks.append(records.hook)
            RT.gen_messages = True
        loaded = build.load_program(hist['program'])
        ex = history.Executor(hist, root / 'data', root / 'cfg')
        (root / 'data').mkdir()
        ex.write_files()
        sm = history.StoreModel(hist, root / 'cfg', salt=bool(hist.get('salt')))
        out.model = sm
        out.executor = ex
        for step, op in enumerate(hist['ops']):
            info = {'step': step, 'op': op}
            try:
                if op['op'] == 'session':
                    if zygote is None:
                        out.steps.append({'kind': 'skipped'})
                        continue
                    req = {'hist': hist, 'data': str(root / 'data'), 'cfg_root': str(root / 'cfg'), 'ops': op['ops'],
                           'seq0': RT.seq, 'armed': dict(RT.fail), 'special': dict(RT.special), 'flags': flags}
                    rep = zygote.run(req, str(root / f'session{step}.json'))
                    RT.seq = rep['seq']
                    RT.fail.clear()
                    RT.fail.update(rep.get('armed', {}))
                    RT.special.clear()
                    RT.special.update(rep.get('special', {}))
                    proc = f'session{step}'
                    res = []
                    for sop, obs in zip(op['ops'], rep['obs']):
                        sinfo = {'step': step, 'session_op': sop, 'in': 'fresh interpreter'}
                        r = sm.step(proc, sop, obs, sinfo)
                        if flags and 'flags' in obs:
                            sm.check_flags(proc, obs['flags'], sinfo)
                        r['session'] = True
                        res.append(r)
                    sm.procs.pop(proc, None)
                    out.steps.append({'kind': 'session', 'steps': res})
                else:
                    obs = ex.do(op)
                    r = sm.step('main', op, obs, info)
                    if flags and not obs.get('skipped'):
                        sm.check_flags('main', ex.flags(), info)
                    out.steps.append(r)
                if on_step:
                    on_step(step, op, out.steps[-1], ex, sm)
            except Violation as v:
                if relevant is not None and not any(v.clause == r or v.clause.startswith(r) for r in relevant):
                    if keep_going:
                        # a deviation that belongs to another property: note it and carry on (the clauses this
                        # property asserts do not depend on the model state the deviation may have left behind)
                        out.other.append(v.clause)
                        out.steps.append({'kind': 'other-clause', 'clause': v.clause})
                        continue
                    out.steps.append({'kind': 'stopped', 'clause': v.clause})
                    out.stopped = v.clause
                    return out
                if isinstance(v.detail, dict):
                    v.detail['history'] = describe(hist)
                raise
        return out
    finally:
        if loaded is not None:
            loaded.unload()
        hyp.drop_scratch(root)


def flat_steps(out):
    flat = []
    for s in out.steps:
        flat += s['steps'] if s.get('kind') == 'session' else [s]
    return flat


def closing_ops(hist, slots=3, tasks=8, session=True):
    """Value requests on every task of every live chain, then a fresh interpreter doing the same for every variant."""
    ops = []
    for sl in range(slots):
        for m in range(2):
            for t in range(tasks):
                ops.append({'op': 'value', 'slot': sl, 'member': m, 'task': t})
    if session:
        for vi in range(len(hist['variants'])):
            sops = [{'op': 'chain', 'variant': vi, 'pm': not hist.get('name_mode')}]
            sops += [{'op': 'value', 'slot': 0, 'member': 0, 'task': t} for t in range(tasks)]
            ops.append({'op': 'session', 'ops': sops})
    return ops
