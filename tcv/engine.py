"""Running engine cases against the library and comparing with the reference model."""
import json
from pathlib import Path

from tcv import build, hyp, model
from tcv.hyp import Violation
from tcv.runtime import RT, canon_param, digest_of


class World:
    """One materialised case: scratch dirs, config files, loaded program.  Use as a context manager."""

    def __init__(self, case, prefix='tcv-eng-', keep_modules=False):
        self.case = case
        self.root = hyp.scratch_dir(prefix)
        self.cfgdir = self.root / 'cfg'
        self.data = self.root / 'data'
        self.loaded = None

    def __enter__(self):
        hyp.silence_library_logging()
        RT.reset()
        self.loaded = build.load_program(self.case['program'])
        build.write_files(self.case, self.cfgdir)
        self.data.mkdir(exist_ok=True)
        return self

    def __exit__(self, *exc):
        if self.loaded is not None:
            self.loaded.unload()
        hyp.drop_scratch(self.root)
        return False

    def config(self, case=None, data=None, cfgdir=None):
        return build.make_config(case or self.case, data or self.data, cfgdir or self.cfgdir)

    def config_with(self, context):
        return build.make_config(self.case, self.data, self.cfgdir, context=context)

    def chain(self, parameter_mode=True, **kw):
        return self.config(**kw).chain(parameter_mode=parameter_mode)

    def model(self, case=None, parameter_mode=True, cfgdir=None, root_name=None):
        return model.build_tasks(case or self.case, cfgdir or self.cfgdir, parameter_mode, root_name=root_name)


def _ctx_desc(case, layer):
    d = build.context_layer_data(case, layer)
    if layer.get('nested'):
        d['uses(nested)'] = [{'as': s.get('ns'), 'context': _ctx_desc(case, s['layer'])} for s in layer['nested']]
    return d


def describe(case):
    """Readable form of a case for evidence samples / replay files."""
    prog = case['program']
    return {
        'modules': build.sources(prog),
        'files': {f['name'] + '.' + f['fmt']: (build.node_data(case, '<cfgdir>', f['node'], i) if not f.get('parts') else {
            'configs': {pn: build.node_data(case, '<cfgdir>', nd, i) for pn, nd in f['parts'].items()}})
            for i, f in enumerate(case['files'])},
        'root': case['files'][case['root']]['name'] + ('#' + case['root_part'] if case.get('root_part') else ''),
        'context': [_ctx_desc(case, l) for l in case['context']['layers']] if case.get('context') else None,
        'global_vars': case.get('global_vars'),
    }


def build_both(world, parameter_mode=True, case=None):
    """-> (chain or None, model tasks or None, lib_error, model_error)"""
    lib_err = mod_err = None
    chain = mtasks = None
    try:
        mtasks = world.model(case, parameter_mode)
    except model.ModelError as e:
        mod_err = e
    try:
        with hyp.quiet_output():
            chain = world.chain(parameter_mode, case=case)
    except RecursionError as e:
        lib_err = e
    except Exception as e:
        lib_err = e
    return chain, mtasks, lib_err, mod_err


def check_construction(case, chain, mtasks, lib_err, mod_err):
    info = {'case': describe(case)}
    if mod_err is not None and lib_err is None:
        raise Violation(f'construction-should-fail:{mod_err.kind}', dict(info, model_error=str(mod_err),
                                                                       chain_tasks=sorted(chain.tasks)))
    if mod_err is None and lib_err is not None:
        raise Violation('construction-raised', dict(info, error=repr(lib_err)[:500]))
    return mod_err is None


def check_task_set(case, chain, mtasks):
    got, want = set(chain.tasks), set(mtasks)
    if got != want:
        raise Violation('task-set', {'missing': sorted(want - got), 'unexpected': sorted(got - want),
                                     'case': describe(case)})


def param_matches(chain, mtasks, n, k):
    """Library value of parameter k of task n equals the model's (ignored parameters of shared objects: any mount's)."""
    lt, mt = chain.tasks[n], mtasks[n]
    got = lt.params[k]
    if canon_param(got) == canon_param(mt.params[k]):
        return True
    spec = [p for p in mt.spec['params'] if p['name'] == k][0]
    if spec.get('ignore'):
        alts = [mtasks[m].params[k] for m in mtasks if chain.tasks[m] is lt]
        return any(canon_param(got) == canon_param(a) for a in alts)
    return False


def check_params(case, chain, mtasks):
    for n, mt in mtasks.items():
        lt = chain.tasks[n]
        names = set(lt.params.keys())
        if names != set(mt.params):
            raise Violation('parameter-names', {'task': n, 'got': sorted(names), 'want': sorted(mt.params),
                                                'case': describe(case)})
        for k, want in mt.params.items():
            try:
                got = lt.params[k]
            except Exception as e:
                raise Violation('parameter-access-raised', {'task': n, 'param': k, 'error': repr(e),
                                                            'case': describe(case)})
            if canon_param(got) != canon_param(want):
                spec = [p for p in mt.spec['params'] if p['name'] == k][0]
                if spec.get('ignore'):
                    # a task object shared by several names (same computation) legitimately carries the *ignored*
                    # parameter values of the mount that created it
                    alts = [mtasks[m].params[k] for m in mtasks if chain.tasks[m] is lt]
                    if any(canon_param(got) == canon_param(a) for a in alts):
                        continue
                raise Violation('parameter-value', {'task': n, 'param': k, 'got': repr(got)[:200],
                                                    'want': repr(want)[:200] if not isinstance(want, model.Obj)
                                                    else want.tcv_canon(), 'case': describe(case)})


def check_inputs(case, chain, mtasks):
    import taskchain
    for n, mt in mtasks.items():
        lt = chain.tasks[n]
        got = {}
        for k, v in lt.input_tasks.items():
            got[k] = v
        want_present = {i['key']: i for i in mt.inputs if i['present']}
        want_absent = {i['key']: i for i in mt.inputs if not i['present']}
        # compare at object level: the set of input task objects
        got_objs = {id(v) for v in got.values() if isinstance(v, taskchain.Task)}
        want_objs = {id(chain.tasks[i['target']]) for i in want_present.values()}
        if got_objs != want_objs:
            raise Violation('input-edges', {'task': n, 'got_keys': sorted(got), 'want': sorted(
                i['target'] for i in want_present.values()), 'case': describe(case)})
        # names relative to the namespace: a shared object is registered under several names and carries the input
        # names of one of its mounts, so any of the sharing namespaces is accepted
        sharing = {mtasks[m].ns for m in mtasks if chain.tasks[m] is lt}

        def rel(ns, k):
            return k[len(ns) + 2:] if ns and k.startswith(ns + '::') else k

        want_rel = sorted([rel(mt.ns, k) for k in want_present] + [rel(mt.ns, k) for k in want_absent])
        if not any(sorted(rel(ns, k) for k in got) == want_rel for ns in sharing):
            raise Violation('input-names', {'task': n, 'got': sorted(got), 'want': want_rel, 'case': describe(case)})
        obj_ns = [ns for ns in sharing if sorted(rel(ns, k) for k in got) == want_rel][0]
        for k, i in want_absent.items():
            kk = [x for x in got if rel(obj_ns, x) == rel(mt.ns, k)][0]
            if isinstance(got[kk], taskchain.Task) or canon_param(got[kk]) != canon_param(i['default']):
                raise Violation('optional-default', {'task': n, 'input': k, 'got': repr(got[kk])[:100],
                                                     'want': repr(i['default']), 'case': describe(case)})


def check_graph(case, chain, mtasks):
    g = chain.graph
    want_edges = set()
    for n, mt in mtasks.items():
        for i in mt.inputs:
            if i['present']:
                want_edges.add((id(chain.tasks[i['target']]), id(chain.tasks[n])))
    got_edges = {(id(a), id(b)) for a, b in g.edges}
    if got_edges != want_edges:
        raise Violation('graph-edges', {'got': len(got_edges), 'want': len(want_edges), 'case': describe(case)})
    if {id(x) for x in g.nodes} != {id(t) for t in chain.tasks.values()}:
        raise Violation('graph-nodes', {'case': describe(case)})
    # closures, at object level (names sharing one task object share its closure)
    oid = {n: id(chain.tasks[n]) for n in mtasks}
    up = {}
    for n, mt in mtasks.items():
        up.setdefault(oid[n], set())
        for i in mt.inputs:
            if i['present']:
                up[oid[n]].add(oid[i['target']])
    anc = {}

    def ancestors(o):
        if o in anc:
            return anc[o]
        anc[o] = set()  # (acyclic by the model's own check)
        s = set()
        for m in up[o]:
            s.add(m)
            s |= ancestors(m)
        anc[o] = s
        return s

    for o in up:
        ancestors(o)
    for n in mtasks:
        o = oid[n]
        want_req = anc[o] - {o}
        want_dep = {x for x in up if o in anc[x]} - {o}
        for incl in (False, True):
            got_req = {id(x) for x in chain.required_tasks(n, include_self=incl)}
            got_dep = {id(x) for x in chain.dependent_tasks(n, include_self=incl)}
            self_id = {o} if incl else set()
            if got_req != want_req | self_id:
                raise Violation('required_tasks', {'task': n, 'include_self': incl, 'case': describe(case)})
            if got_dep != want_dep | self_id:
                raise Violation('dependent_tasks', {'task': n, 'include_self': incl, 'case': describe(case)})
        for m in mtasks:
            want = oid[m] in (want_req | {o})
            if bool(chain.is_task_dependent_on(n, m)) != want:
                raise Violation('is_task_dependent_on', {'task': n, 'on': m, 'want': want, 'case': describe(case)})


def check_sharing(case, chain, mtasks):
    for (slug, key), names in model.objects(mtasks).items():
        ids = {id(chain.tasks[n]) for n in names}
        if len(ids) != 1:
            raise Violation('same-computation-not-shared', {'names': names, 'case': describe(case)})
    by_obj = {}
    for n in mtasks:
        by_obj.setdefault(id(chain.tasks[n]), []).append(n)
    for oid, names in by_obj.items():
        keys = {(mtasks[n].slug, mtasks[n].key) for n in names}
        if len(keys) != 1:
            raise Violation('different-computations-share-object', {'names': names, 'case': describe(case)})


def check_keys(case, chain, mtasks, base):
    for n, mt in mtasks.items():
        lt = chain.tasks[n]
        got = lt.name_for_persistence
        if got != mt.key:
            raise Violation('storage-key', {'task': n, 'got': got, 'want': mt.key, 'key_text': mt.key_text,
                                            'lib_param_repr': lt.params.repr, 'case': describe(case)})
        want_loc = model.location(mt)
        dp = lt.data_path
        got_loc = None if dp is None else str(Path(dp).relative_to(base))
        if got_loc != want_loc:
            raise Violation('storage-location', {'task': n, 'got': got_loc, 'want': want_loc, 'case': describe(case)})


def check_values(case, chain, mtasks, names=None):
    for n in (names or list(mtasks)):
        try:
            with hyp.quiet_output():
                v = chain.tasks[n].value
        except Exception as e:
            raise Violation('value-raised', {'task': n, 'error': repr(e)[:400], 'case': describe(case)})
        got = digest_of(v)
        if mtasks[n].kind == 'gen_empty' and got is None:
            continue
        if got != mtasks[n].value:
            raise Violation('value', {'task': n, 'got': got, 'want': mtasks[n].value, 'case': describe(case)})
