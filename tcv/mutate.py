"""Labelled rewritings of engine cases: invalid-by-construction variants (C08/C09) and
computation-preserving / computation-changing variants (C02/C03)."""
import copy

from hypothesis import strategies as st


def _concrete(case):
    out = []
    for mi, m in enumerate(case['program']['modules']):
        for ti, t in enumerate(m['tasks']):
            if not t['abstract']:
                out.append((mi, ti))
    return out


@st.composite
def invalid_graph(draw, case):
    case = copy.deepcopy(case)
    prog = case['program']
    kind = draw(st.sampled_from(['dangling', 'cycle1', 'cycle2', 'cyclek', 'ambiguous', 'excluded-target']))
    tasks = _concrete(case)
    mi, ti = draw(st.sampled_from(tasks))
    t = prog['modules'][mi]['tasks'][ti]
    if kind == 'dangling':
        t['inputs'].append({'form': 'text', 'text': draw(st.sampled_from(['zz_missing', 'g:zz_missing', 'm::zz_missing',
                                                                          t['name'] + 'x'])),
                            'optional': False, 'via_param': False})
        t['style'] = 'index' if t['style'] == 'args' else t['style']
    elif kind == 'cycle1':
        t['inputs'].append({'form': 'gname', 'mod': mi, 'task': ti, 'rel': '', 'optional': False, 'via_param': False})
        t['style'] = 'index' if t['style'] == 'args' else t['style']
    elif kind in ('cycle2', 'cyclek'):
        # find a chain t <- ... <- u inside one namespace (rel == ''), then make u's root depend on t
        edges = []
        for (a, b) in tasks:
            for i in prog['modules'][a]['tasks'][b]['inputs']:
                if i.get('form') in ('class', 'name', 'gname') and not i.get('rel') and not i.get('optional'):
                    edges.append(((a, b), (i['mod'], i['task'])))
        if not edges:
            return draw(invalid_graph(case)) if False else _dangling(case, draw)
        (a, b), (c, d) = draw(st.sampled_from(edges))
        if kind == 'cyclek':
            # extend upstream as far as possible
            cur = (c, d)
            for _ in range(4):
                nxt = [e[1] for e in edges if e[0] == cur]
                if not nxt:
                    break
                cur = nxt[0]
            c, d = cur
        src = prog['modules'][c]['tasks'][d]
        if c != a and not any(dep['mod'] == c and not dep['rel'] for dep in _plain_closure(prog, a)):
            pass
        # the upstream task (possibly of an earlier module) declares the downstream one by its group:name text
        tgt = prog['modules'][a]['tasks'][b]
        src['inputs'].append({'form': 'text', 'text': tgt['slug'], 'optional': False, 'via_param': False})
        src['style'] = 'index' if src['style'] == 'args' else src['style']
        case['mutation_note'] = f'{src["slug"]} -> {tgt["slug"]}'
    elif kind == 'ambiguous':
        m = prog['modules'][mi]
        n = len(m['tasks'])
        base = {'derive_name': False, 'base': 'Task', 'abstract': False, 'params': [], 'inputs': [], 'kind': 'dict',
                'style': 'args'}
        m['tasks'].append(dict(base, cls='Zza', name='amb', group='g', slug='g:amb'))
        m['tasks'].append(dict(base, cls='Zzb', name='amb', group='xg', slug='xg:amb'))
        m['tasks'].append(dict(base, cls='Zzc', name='amb_user', group=None, slug='amb_user', style='index',
                               inputs=[{'form': 'text', 'text': 'amb', 'optional': False, 'via_param': False}]))
    elif kind == 'excluded-target':
        # exclude, in every config node of the module, a task some other task requires
        targets = []
        for (a, b) in tasks:
            for i in prog['modules'][a]['tasks'][b]['inputs']:
                if i.get('form') in ('class', 'name', 'gname') and not i.get('optional'):
                    targets.append((i['mod'], i['task']))
        if not targets:
            return _dangling(case, draw)
        tm, tt = draw(st.sampled_from(targets))
        cls = prog['modules'][tm]['tasks'][tt]['cls']
        for f in case['files']:
            nd = f['node']
            if nd['module'] == tm:
                nd['tasks_how'] = 'list+excl'
                nd['excluded'] = [cls]
    case['mutation'] = kind
    return case


def _dangling(case, draw):
    tasks = _concrete(case)
    mi, ti = draw(st.sampled_from(tasks))
    t = case['program']['modules'][mi]['tasks'][ti]
    t['inputs'].append({'form': 'text', 'text': 'zz_missing', 'optional': False, 'via_param': False})
    t['style'] = 'index' if t['style'] == 'args' else t['style']
    case['mutation'] = 'dangling'
    return case


def _plain_closure(prog, mi):
    return prog['modules'][mi]['deps']


def _all_nodes(case):
    for fi, f in enumerate(case['files']):
        if f.get('parts'):
            for pn, nd in f['parts'].items():
                yield fi, pn, nd
        elif f.get('node') is not None:
            yield fi, None, f['node']


@st.composite
def invalid_config(draw, case):
    """missing-required (value present only in another config), wrong-type, conflict (two configs, one namespace)."""
    from tcv import gen
    case = copy.deepcopy(case)
    prog = case['program']
    kind = draw(st.sampled_from(['missing-required', 'wrong-type', 'conflict', 'conflict']))
    nodes = [(fi, pn, nd) for fi, pn, nd in _all_nodes(case) if nd['module'] is not None]
    if kind == 'missing-required':
        cands = []
        for fi, pn, nd in nodes:
            for key, plist in gen.param_keys_of_module(prog['modules'][nd['module']]).items():
                if key in nd['values'] and any('default' not in p for p in plist):
                    cands.append((fi, pn, key))
        if not cands:
            kind = 'conflict'
        else:
            fi, pn, key = draw(st.sampled_from(cands))
            nd = case['files'][fi]['parts'][pn] if pn else case['files'][fi]['node']
            val = nd['values'].pop(key)
            # the value is still present elsewhere in the tree: in the root config and in configs of other modules
            for fj, pj, other in _all_nodes(case):
                if other is not nd and other['module'] != nd['module']:
                    other['values'].setdefault(key, val)
            case['mutation_note'] = f'{key} removed from {case["files"][fi]["name"]}'
    if kind == 'wrong-type':
        cands = []
        for fi, pn, nd in nodes:
            for key, plist in gen.param_keys_of_module(prog['modules'][nd['module']]).items():
                dts = {p['dtype'] for p in plist if p.get('dtype') in ('int', 'str', 'list')}
                if dts:
                    cands.append((fi, pn, key, sorted(dts)[0]))
        if not cands:
            kind = 'conflict'
        else:
            fi, pn, key, dt = draw(st.sampled_from(cands))
            nd = case['files'][fi]['parts'][pn] if pn else case['files'][fi]['node']
            nd['values'][key] = {'int': 'seven', 'str': 7, 'list': {'a': 1}}[dt]
    if kind == 'conflict':
        # a second config file for a module, mounted plainly next to an existing instance of that module
        fi, pn, nd = draw(st.sampled_from(nodes))
        twin = copy.deepcopy(nd)
        twin['uses'] = []
        twin.pop('main_part', None)
        case['files'].append({'name': 'twin', 'fmt': 'json', 'node': twin})
        ti = len(case['files']) - 1
        users = [(fj, pj, other) for fj, pj, other in _all_nodes(case)
                 if any(u['file'] == fi and u.get('part') == pn for u in other['uses'])]
        new_use = {'file': ti, 'mod': nd['module'], 'variant': None, 'ns': None, 'placeholder': False}
        if users and draw(st.booleans()):
            fj, pj, other = draw(st.sampled_from(users))
            old = [u for u in other['uses'] if u['file'] == fi and u.get('part') == pn][0]
            new_use['ns'] = old.get('ns')
            pos = draw(st.integers(0, len(other['uses'])))
            other['uses'].insert(pos, new_use)
        else:
            nd['uses'].insert(draw(st.integers(0, len(nd['uses']))), new_use)
    case['mutation'] = kind
    return case
