"""Labelled rewritings of engine cases: invalid-by-construction variants (C08/C09) and
computation-preserving / computation-changing variants (C02/C03)."""
import copy

from hypothesis import strategies as st


def _concrete(case):
    out = []
    for mi, m in enumerate(case['program']['modules']):
        for ti, t in enumerate(m['tasks']):
            if not t['abstract']:
                out.append((mi, ti))
    return out


@st.composite
def invalid_graph(draw, case):
    case = copy.deepcopy(case)
    prog = case['program']
    kind = draw(st.sampled_from(['dangling', 'cycle1', 'cycle2', 'cyclek', 'ambiguous', 'excluded-target']))
    tasks = _concrete(case)
    mi, ti = draw(st.sampled_from(tasks))
    t = prog['modules'][mi]['tasks'][ti]
    if kind == 'dangling':
        t['inputs'].append({'form': 'text', 'text': draw(st.sampled_from(['zz_missing', 'g:zz_missing', 'm::zz_missing',
                                                                          t['name'] + 'x'])),
                            'optional': False, 'via_param': False})
        t['style'] = 'index' if t['style'] == 'args' else t['style']
    elif kind == 'cycle1':
        t['inputs'].append({'form': 'gname', 'mod': mi, 'task': ti, 'rel': '', 'optional': False, 'via_param': False})
        t['style'] = 'index' if t['style'] == 'args' else t['style']
    elif kind in ('cycle2', 'cyclek'):
        # find a chain t <- ... <- u inside one namespace (rel == ''), then make u's root depend on t
        edges = []
        for (a, b) in tasks:
            for i in prog['modules'][a]['tasks'][b]['inputs']:
                if i.get('form') in ('class', 'name', 'gname') and not i.get('rel') and not i.get('optional'):
                    edges.append(((a, b), (i['mod'], i['task'])))
        if not edges:
            return draw(invalid_graph(case)) if False else _dangling(case, draw)
        (a, b), (c, d) = draw(st.sampled_from(edges))
        if kind == 'cyclek':
            # extend upstream as far as possible
            cur = (c, d)
            for _ in range(4):
                nxt = [e[1] for e in edges if e[0] == cur]
                if not nxt:
                    break
                cur = nxt[0]
            c, d = cur
        src = prog['modules'][c]['tasks'][d]
        if c != a and not any(dep['mod'] == c and not dep['rel'] for dep in _plain_closure(prog, a)):
            pass
        # the upstream task (possibly of an earlier module) declares the downstream one by its group:name text
        tgt = prog['modules'][a]['tasks'][b]
        src['inputs'].append({'form': 'text', 'text': tgt['slug'], 'optional': False, 'via_param': False})
        src['style'] = 'index' if src['style'] == 'args' else src['style']
        case['mutation_note'] = f'{src["slug"]} -> {tgt["slug"]}'
    elif kind == 'ambiguous':
        m = prog['modules'][mi]
        n = len(m['tasks'])
        base = {'derive_name': False, 'base': 'Task', 'abstract': False, 'params': [], 'inputs': [], 'kind': 'dict',
                'style': 'args'}
        m['tasks'].append(dict(base, cls='Zza', name='amb', group='g', slug='g:amb'))
        m['tasks'].append(dict(base, cls='Zzb', name='amb', group='xg', slug='xg:amb'))
        m['tasks'].append(dict(base, cls='Zzc', name='amb_user', group=None, slug='amb_user', style='index',
                               inputs=[{'form': 'text', 'text': 'amb', 'optional': False, 'via_param': False}]))
    elif kind == 'excluded-target':
        # exclude, in every config node of the module, a task some other task requires
        targets = []
        for (a, b) in tasks:
            for i in prog['modules'][a]['tasks'][b]['inputs']:
                if i.get('form') in ('class', 'name', 'gname') and not i.get('optional'):
                    targets.append((i['mod'], i['task']))
        if not targets:
            return _dangling(case, draw)
        tm, tt = draw(st.sampled_from(targets))
        cls = prog['modules'][tm]['tasks'][tt]['cls']
        for f in case['files']:
            nd = f['node']
            if nd['module'] == tm:
                nd['tasks_how'] = 'list+excl'
                nd['excluded'] = [cls]
    case['mutation'] = kind
    return case


def _dangling(case, draw):
    tasks = _concrete(case)
    mi, ti = draw(st.sampled_from(tasks))
    t = case['program']['modules'][mi]['tasks'][ti]
    t['inputs'].append({'form': 'text', 'text': 'zz_missing', 'optional': False, 'via_param': False})
    t['style'] = 'index' if t['style'] == 'args' else t['style']
    case['mutation'] = 'dangling'
    return case


def _plain_closure(prog, mi):
    return prog['modules'][mi]['deps']
