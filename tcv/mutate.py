"""Labelled rewritings of engine cases: invalid-by-construction variants (C08/C09) and
computation-preserving / computation-changing variants (C02/C03)."""
import copy
import json

from hypothesis import strategies as st


def _concrete(case):
    out = []
    for mi, m in enumerate(case['program']['modules']):
        for ti, t in enumerate(m['tasks']):
            if not t['abstract']:
                out.append((mi, ti))
    return out


@st.composite
def invalid_graph(draw, case):
    case = copy.deepcopy(case)
    prog = case['program']
    kind = draw(st.sampled_from(['dangling', 'cycle1', 'cycle2', 'cyclek', 'ambiguous', 'excluded-target', 'foreign',
                                 'foreign', 'class-namesake']))
    tasks = _concrete(case)
    mi, ti = draw(st.sampled_from(tasks))
    t = prog['modules'][mi]['tasks'][ti]
    if kind == 'class-namesake':
        # an input given BY CLASS (also as InputTaskParameter(Class), required or optional) whose own task is excluded
        # from the chain while a namesake in another group (x vs g:x) is present: a class stands for exactly its task
        pairs = []
        for (a, b) in tasks:
            u = prog['modules'][a]['tasks'][b]
            if any((a2, b2) != (a, b) and a2 == a and prog['modules'][a2]['tasks'][b2]['name'] == u['name'] for (a2, b2) in tasks):
                pairs.append((a, b))
        users = [(mi_, ti_) for (mi_, ti_) in tasks]
        if not pairs:
            return _dangling(case, draw)
        a, b = draw(st.sampled_from(pairs))
        later = [(mi_, ti_) for (mi_, ti_) in users if mi_ == a and ti_ > b
                 and prog['modules'][mi_]['tasks'][ti_]['name'] != prog['modules'][a]['tasks'][b]['name']]
        if not later:
            return _dangling(case, draw)
        mi, ti = draw(st.sampled_from(later))
        t = prog['modules'][mi]['tasks'][ti]
        t['inputs'] = [i for i in t['inputs'] if not (i.get('mod') == a and i.get('task') == b)]
        optional = draw(st.booleans())
        inp = {'form': 'class', 'mod': a, 'task': b, 'rel': '', 'optional': optional, 'via_param': draw(st.booleans())}
        if optional:
            inp['default'] = None
        else:
            inp['itp'] = draw(st.booleans())
            inp['via_param'] = inp['via_param'] and inp['itp']
        t['inputs'].append(inp)
        t['style'] = 'index' if t['style'] == 'args' else t['style']
        cls = prog['modules'][a]['tasks'][b]['cls']
        for fi_, pn_, nd_ in _all_nodes(case):
            if nd_['module'] == a:
                nd_['tasks_how'] = 'list+excl'
                nd_['excluded'] = sorted(set(nd_.get('excluded', [])) | {cls})
    elif kind == 'foreign':
        # an input named like a task that exists in the program - but perhaps only in ANOTHER namespace than the
        # declaring task's (then it is dangling: inputs are resolved inside the declaring task's own namespace), or
        # downstream of it (a cycle), or it is simply one more edge; the reference model says which
        others = [(a, b) for (a, b) in tasks if (a, b) != (mi, ti)
                  and not any(i.get('mod') == a and i.get('task') == b for i in t['inputs'])]
        # preferably: the declaring task is mounted at the root, the named one only below a namespace
        try:
            from tcv import model
            where = {}
            for inst in model.compose(case):
                if inst.node.get('module') is not None:
                    where.setdefault(inst.node['module'], set()).add(inst.ns)
            rooted = [(a, b) for (a, b) in tasks if None in where.get(a, ())]
            below = [(a, b) for (a, b) in tasks if where.get(a) and None not in where[a]]
            if rooted and below and draw(st.integers(0, 3)) > 0:
                mi, ti = draw(st.sampled_from(rooted))
                t = prog['modules'][mi]['tasks'][ti]
                others = [(a, b) for (a, b) in below
                          if not any(i.get('mod') == a and i.get('task') == b for i in t['inputs'])] or others
        except Exception:
            pass
        if not others:
            return _dangling(case, draw)
        a, b = draw(st.sampled_from(others))
        u = prog['modules'][a]['tasks'][b]
        text = draw(st.sampled_from([u['slug'], u['name']]))
        optional = draw(st.booleans())
        inp = {'form': 'text', 'text': text, 'optional': optional, 'via_param': False}
        if optional:
            inp['default'] = None
        t['inputs'].append(inp)
        t['style'] = 'index' if t['style'] == 'args' else t['style']
    elif kind == 'dangling':
        t['inputs'].append({'form': 'text', 'text': draw(st.sampled_from(['zz_missing', 'g:zz_missing', 'm::zz_missing',
                                                                          t['name'] + 'x'])),
                            'optional': False, 'via_param': False})
        t['style'] = 'index' if t['style'] == 'args' else t['style']
    elif kind == 'cycle1':
        t['inputs'].append({'form': 'gname', 'mod': mi, 'task': ti, 'rel': '', 'optional': False, 'via_param': False})
        t['style'] = 'index' if t['style'] == 'args' else t['style']
    elif kind in ('cycle2', 'cyclek'):
        # find a chain t <- ... <- u inside one namespace (rel == ''), then make u's root depend on t
        edges = []
        for (a, b) in tasks:
            for i in prog['modules'][a]['tasks'][b]['inputs']:
                if i.get('form') in ('class', 'name', 'gname') and not i.get('rel') and not i.get('optional'):
                    edges.append(((a, b), (i['mod'], i['task'])))
        if not edges:
            return draw(invalid_graph(case)) if False else _dangling(case, draw)
        (a, b), (c, d) = draw(st.sampled_from(edges))
        if kind == 'cyclek':
            # extend upstream as far as possible
            cur = (c, d)
            for _ in range(4):
                nxt = [e[1] for e in edges if e[0] == cur]
                if not nxt:
                    break
                cur = nxt[0]
            c, d = cur
        src = prog['modules'][c]['tasks'][d]
        if c != a and not any(dep['mod'] == c and not dep['rel'] for dep in _plain_closure(prog, a)):
            pass
        # the upstream task (possibly of an earlier module) declares the downstream one by its group:name text
        tgt = prog['modules'][a]['tasks'][b]
        src['inputs'].append({'form': 'text', 'text': tgt['slug'], 'optional': False, 'via_param': False})
        src['style'] = 'index' if src['style'] == 'args' else src['style']
        case['mutation_note'] = f'{src["slug"]} -> {tgt["slug"]}'
    elif kind == 'ambiguous':
        m = prog['modules'][mi]
        n = len(m['tasks'])
        base = {'derive_name': False, 'base': 'Task', 'abstract': False, 'params': [], 'inputs': [], 'kind': 'dict',
                'style': 'args'}
        m['tasks'].append(dict(base, cls='Zza', name='amb', group='g', slug='g:amb'))
        m['tasks'].append(dict(base, cls='Zzb', name='amb', group='xg', slug='xg:amb'))
        m['tasks'].append(dict(base, cls='Zzc', name='amb_user', group=None, slug='amb_user', style='index',
                               inputs=[{'form': 'text', 'text': 'amb', 'optional': False, 'via_param': False}]))
    elif kind == 'excluded-target':
        # exclude, in every config node of the module, a task some other task requires
        targets = []
        for (a, b) in tasks:
            for i in prog['modules'][a]['tasks'][b]['inputs']:
                if i.get('form') in ('class', 'name', 'gname') and not i.get('optional'):
                    targets.append((i['mod'], i['task']))
        if not targets:
            return _dangling(case, draw)
        tm, tt = draw(st.sampled_from(targets))
        cls = prog['modules'][tm]['tasks'][tt]['cls']
        for f in case['files']:
            nd = f['node']
            if nd['module'] == tm:
                nd['tasks_how'] = 'list+excl'
                nd['excluded'] = [cls]
    case['mutation'] = kind
    return case


def _dangling(case, draw):
    tasks = _concrete(case)
    mi, ti = draw(st.sampled_from(tasks))
    t = case['program']['modules'][mi]['tasks'][ti]
    t['inputs'].append({'form': 'text', 'text': 'zz_missing', 'optional': False, 'via_param': False})
    t['style'] = 'index' if t['style'] == 'args' else t['style']
    case['mutation'] = 'dangling'
    return case


def _plain_closure(prog, mi):
    return prog['modules'][mi]['deps']


def _all_nodes(case):
    for fi, f in enumerate(case['files']):
        if f.get('parts'):
            for pn, nd in f['parts'].items():
                yield fi, pn, nd
        elif f.get('node') is not None:
            yield fi, None, f['node']


@st.composite
def invalid_config(draw, case):
    """missing-required (value present only in another config), wrong-type, conflict (two configs, one namespace)."""
    from tcv import gen
    case = copy.deepcopy(case)
    prog = case['program']
    kind = draw(st.sampled_from(['missing-required', 'wrong-type', 'wrong-type', 'conflict', 'conflict']))
    nodes = [(fi, pn, nd) for fi, pn, nd in _all_nodes(case) if nd['module'] is not None]
    if kind == 'missing-required':
        cands = []
        for fi, pn, nd in nodes:
            for key, plist in gen.param_keys_of_module(prog['modules'][nd['module']]).items():
                if key in nd['values'] and any('default' not in p for p in plist):
                    cands.append((fi, pn, key))
        if not cands:
            kind = 'conflict'
        else:
            fi, pn, key = draw(st.sampled_from(cands))
            nd = case['files'][fi]['parts'][pn] if pn else case['files'][fi]['node']
            val = nd['values'].pop(key)
            # the value is still present elsewhere in the tree: in the root config and in configs of other modules
            for fj, pj, other in _all_nodes(case):
                if other is not nd and other['module'] != nd['module']:
                    other['values'].setdefault(key, val)
            case['mutation_note'] = f'{key} removed from {case["files"][fi]["name"]}'
    if kind == 'wrong-type':
        cands = []
        for fi, pn, nd in nodes:
            for key, plist in gen.param_keys_of_module(prog['modules'][nd['module']]).items():
                dts = {p['dtype'] for p in plist if p.get('dtype') in ('int', 'str', 'list')}
                if dts:
                    cands.append((fi, pn, key, sorted(dts)[0]))
        if not cands:
            kind = 'conflict'
        else:
            fi, pn, key, dt = draw(st.sampled_from(cands))
            nd = case['files'][fi]['parts'][pn] if pn else case['files'][fi]['node']
            # also wrongly typed values that compare EQUAL to the generated default (3.0 == 3) or look close to it
            nd['values'][key] = draw(st.sampled_from({'int': ['seven', 3.0, 3.0, 2.5, [3]], 'str': [7, ['dv'], 0.0],
                                                      'list': [{'a': 1}, 'x', 1]}[dt]))
    if kind == 'conflict':
        # a second config file for a module, mounted plainly next to an existing instance of that module
        fi, pn, nd = draw(st.sampled_from(nodes))
        twin = copy.deepcopy(nd)
        twin['uses'] = []
        twin.pop('main_part', None)
        own = case['files'][fi]
        # often a DIFFERENT file with the SAME base name (other directory, or .json vs .yaml)
        tname = draw(st.sampled_from(['twin', 'other_dir/' + own['name'].split('/')[-1], own['name'].split('/')[-1] + '_twin']))
        tfmt = draw(st.sampled_from(['json', 'yaml']))
        if tname == own['name'] and tfmt == own['fmt']:
            tname = 'other_dir/' + tname
        case['files'].append({'name': tname, 'fmt': tfmt, 'node': twin})
        ti = len(case['files']) - 1
        users = [(fj, pj, other) for fj, pj, other in _all_nodes(case)
                 if any(u['file'] == fi and u.get('part') == pn for u in other['uses'])]
        new_use = {'file': ti, 'mod': nd['module'], 'variant': None, 'ns': None, 'placeholder': False}
        if users and draw(st.booleans()):
            fj, pj, other = draw(st.sampled_from(users))
            old = [u for u in other['uses'] if u['file'] == fi and u.get('part') == pn][0]
            new_use['ns'] = old.get('ns')
            pos = draw(st.integers(0, len(other['uses'])))
            other['uses'].insert(pos, new_use)
        else:
            nd['uses'].insert(draw(st.integers(0, len(nd['uses']))), new_use)
    case['mutation'] = kind
    return case


# ---- computation-preserving and computation-changing rewritings (C02 / C03) ----------------------------

def _rev_keys(v):
    if isinstance(v, dict):
        return {k: _rev_keys(v[k]) for k in reversed(list(v))}
    if isinstance(v, list):
        return [_rev_keys(x) for x in v]
    return v


def _nodes_with_values(case):
    return [(fi, pn, nd) for fi, pn, nd in _all_nodes(case) if nd['module'] is not None and nd['values']]


PRESERVING = ['rename_files', 'wrap_ns', 'perm_meta', 'perm_inputs', 'perm_tasks', 'perm_uses', 'perm_keys', 'fmt_swap', 'add_ignored',
              'add_default', 'to_context', 'gv_change', 'add_absent_optional', 'wild_swap', 'multi_config', 'uses_objects',
              'spell_default']
CHANGING = ['chg_value', 'chg_value', 'chg_value_deep', 'chg_obj_arg', 'retag', 'rewire', 'drop_optional', 'chg_context',
            'chg_default_param', 'swap_mounts']


@st.composite
def rewrite(draw, case, kinds, n_max=3):
    """Apply 1..n_max rewritings drawn from `kinds`.  -> (new case, namespace prefix for task names, labels)."""
    from tcv import gen, values
    case = copy.deepcopy(case)
    prefix = None
    labels = []
    for _ in range(draw(st.integers(1, n_max))):
        kind = draw(st.sampled_from(kinds))
        prog = case['program']
        tasks = _concrete(case)
        if kind == 'rename_files':
            for k, f in enumerate(case['files']):
                if draw(st.booleans()):
                    f['name'] = draw(st.sampled_from(['moved/', 'a/b/', ''])) + f'r{k}_' + f['name'].split('/')[-1][::-1]
        elif kind == 'wrap_ns':
            for _d in range(draw(st.integers(1, 3))):
                ns = draw(st.sampled_from(['w', 'xw', 'n', 'train']))
                case['files'].append({'name': f'wrap{len(case["files"])}', 'fmt': draw(st.sampled_from(['json', 'yaml'])),
                                      'node': {'module': None, 'tasks_how': 'none', 'values': {}, 'changed': [],
                                               'uses': [{'file': case['root'], 'part': case.get('root_part'), 'mod': None,
                                                         'variant': None, 'ns': ns}]}})
                case['root'] = len(case['files']) - 1
                case.pop('root_part', None)
                case.pop('root_part_style', None)
                prefix = ns if prefix is None else f'{ns}::{prefix}'
                # per-namespace context entries follow the pipeline they were written for
                ctx = case.get('context')
                if ctx:
                    for layer in ctx['layers']:
                        _wrap_layer(layer, ns)
        elif kind == 'perm_meta':
            mi, ti = draw(st.sampled_from(tasks))
            prog['modules'][mi]['tasks'][ti]['params'].reverse()
        elif kind == 'perm_inputs':
            cands = [(mi, ti) for (mi, ti) in tasks if len(prog['modules'][mi]['tasks'][ti]['inputs']) >= 2]
            if cands:
                mi, ti = draw(st.sampled_from(cands))
                prog['modules'][mi]['tasks'][ti]['inputs'].reverse()
        elif kind == 'perm_tasks':
            for fi, pn, nd in _all_nodes(case):
                if nd['tasks_how'] == 'list':
                    nd['tasks_reversed'] = not nd.get('tasks_reversed', False)
        elif kind == 'perm_uses':
            for fi, pn, nd in _all_nodes(case):
                nd['uses'].reverse()
        elif kind == 'perm_keys':
            for f in case['files']:
                f['key_order'] = 'reversed' if f.get('key_order') != 'reversed' else None
            for fi, pn, nd in _all_nodes(case):
                nd['values'] = _rev_keys(nd['values'])
        elif kind == 'fmt_swap':
            for f in case['files']:
                if draw(st.booleans()):
                    f['fmt'] = 'yaml' if f['fmt'] == 'json' else 'json'
        elif kind == 'add_ignored':
            mi, ti = draw(st.sampled_from(tasks))
            t = prog['modules'][mi]['tasks'][ti]
            if not any(p['name'] == 'ig' for p in t['params']):
                t['params'].append({'name': 'ig', 'cfg': None, 'ignore': True, 'dpdv': False, 'dtype': None,
                                    'default': {'v': 0}})
                for fi, pn, nd in _all_nodes(case):
                    if nd['module'] == mi and draw(st.booleans()):
                        nd['values']['ig'] = draw(st.sampled_from([1, 'v', [1, 2], None]))
        elif kind == 'add_default':
            mi, ti = draw(st.sampled_from(tasks))
            t = prog['modules'][mi]['tasks'][ti]
            if not any(p['name'] == 'nd' for p in t['params']) and prog['modules'][mi].get('objects') and draw(st.integers(0, 2)) == 0:
                # ... whose default is an OBJECT (left unset in every config)
                t['params'].append({'name': 'nd', 'cfg': None, 'ignore': False, 'dpdv': True, 'dtype': None, 'object': 'Ob',
                                    'default': {'v': {'__object__': 'Ob', 'args': [2], 'kwargs': {}}, 'as_object': True}})
            elif not any(p['name'] == 'nd' for p in t['params']):
                d = draw(st.sampled_from([None, 0, 'dflt', [1, 'a'], {'k': 1}]))
                t['params'].append({'name': 'nd', 'cfg': None, 'ignore': False, 'dpdv': True, 'dtype': None,
                                    'default': {'v': d}})
                if draw(st.booleans()):
                    for fi, pn, nd in _all_nodes(case):
                        if nd['module'] == mi:
                            nd['values']['nd'] = copy.deepcopy(d)
        elif kind == 'to_context':
            cands = [(fi, pn, nd, k) for fi, pn, nd in _nodes_with_values(case) for k in nd['values']]
            if cands:
                fi, pn, nd, k = draw(st.sampled_from(cands))
                val = nd['values'][k]
                ctx = case.get('context') or {'layers': [], 'as_list': True}
                layer = {'form': draw(st.sampled_from(['dict', 'file_json', 'file_yaml'])), 'global': {}, 'for_ns': {}}
                nss = sorted(n for n in gen.namespaces_of(case) if n)
                where = draw(st.sampled_from(['global'] + nss))
                if where == 'global':
                    layer['global'][k] = copy.deepcopy(val)
                else:
                    layer['for_ns'][where] = {k: copy.deepcopy(val)}
                if draw(st.booleans()):
                    del nd['values'][k]
                ctx['layers'].append(layer)
                ctx['as_list'] = True
                case['context'] = ctx
        elif kind == 'gv_change':
            if case.get('global_vars'):
                case['global_vars']['DATA'] = draw(st.sampled_from(['/other', 'q', '/d1/x']))
        elif kind == 'add_absent_optional':
            mi, ti = draw(st.sampled_from(tasks))
            t = prog['modules'][mi]['tasks'][ti]
            if t['style'] != 'all' and not any(i.get('form') == 'absent' for i in t['inputs']):
                t['inputs'].append({'form': 'absent', 'text': 'zz_never', 'optional': True, 'via_param': True,
                                    'default': draw(st.sampled_from([None, 3]))})
        elif kind == 'wild_swap':
            for fi, pn, nd in _all_nodes(case):
                if nd['tasks_how'] in ('list', 'wild') and draw(st.booleans()):
                    nd['tasks_how'] = 'wild' if nd['tasks_how'] == 'list' else 'list'
        elif kind == 'multi_config':
            if not any(f.get('parts') for f in case['files']):
                case = draw(gen.with_multi_config(case))
        # ---- computation-changing ----
        elif kind in ('chg_value', 'chg_value_deep', 'retag'):
            cands = [(fi, pn, nd, k) for fi, pn, nd in _nodes_with_values(case) for k in nd['values']
                     if not (isinstance(nd['values'][k], dict) and '__object__' in nd['values'][k])]
            if cands:
                fi, pn, nd, k = draw(st.sampled_from(cands))
                old = nd['values'][k]
                if kind == 'retag':
                    nd['values'][k] = draw(st.sampled_from(values.LOOKALIKES))
                elif kind == 'chg_value_deep':
                    nd['values'][k] = _mutate_deep(draw, old)
                else:
                    nd['values'][k] = draw(gen._pv())
                # (default elision compares with Python ==: a value is either type-strictly a default or unequal to it)
                from tcv.runtime import canon_param
                for m_ in prog['modules']:
                    for p_ in gen.param_keys_of_module(m_).get(k, []):
                        if 'default' in p_:
                            try:
                                if nd['values'][k] == p_['default']['v'] and canon_param(nd['values'][k]) != canon_param(
                                        p_['default']['v']):
                                    nd['values'][k] = copy.deepcopy(p_['default']['v'])
                            except Exception:
                                pass
                case['changed_key'] = k
        elif kind == 'chg_obj_arg':
            cands = [(fi, pn, nd, k) for fi, pn, nd in _nodes_with_values(case) for k in nd['values']
                     if isinstance(nd['values'][k], dict) and '__object__' in nd['values'][k]]
            if cands:
                fi, pn, nd, k = draw(st.sampled_from(cands))
                o = nd['values'][k]
                if o['__object__'] == 'Oa':
                    o['args'] = [_mutate_deep(draw, o['args'][0])]
                else:
                    which = draw(st.sampled_from(['k', 'w', 'verbose']))
                    if which == 'k':
                        o['args'] = [_mutate_deep(draw, o['args'][0])]
                    elif which == 'w':
                        o['kwargs']['w'] = draw(st.sampled_from([5, 6, 7, 8]))
                    else:
                        o['kwargs']['verbose'] = not o['kwargs'].get('verbose', False)
        elif kind == 'rewire':
            cands = []
            for (mi, ti) in tasks:
                t = prog['modules'][mi]['tasks'][ti]
                for ii, i in enumerate(t['inputs']):
                    if i.get('form') in ('class', 'gname') and not i.get('rel'):
                        alts = [(mi, x) for x in range(ti) if x != i['task'] or mi != i['mod']]
                        alts = [a for a in alts if a in tasks and a[0] == i['mod']
                                and not any(j.get('mod') == a[0] and j.get('task') == a[1] for j in t['inputs'])]
                        # a namesake in another group (x vs g:x) comes first: with equal parameters it even has the same
                        # key, so only the input's NAME tells the two wirings apart
                        cur = prog['modules'][i['mod']]['tasks'][i['task']]
                        sib = [a for a in alts if prog['modules'][a[0]]['tasks'][a[1]]['name'] == cur['name']]
                        if sib:
                            alts = sib
                        if alts:
                            cands.append((mi, ti, ii, alts))
            if cands:
                mi, ti, ii, alts = draw(st.sampled_from(cands))
                a = draw(st.sampled_from(alts))
                t = prog['modules'][mi]['tasks'][ti]
                t['inputs'][ii] = dict(t['inputs'][ii], mod=a[0], task=a[1], form='gname')
                if t['style'] == 'args':
                    t['style'] = 'index'
        elif kind == 'drop_optional':
            cands = []
            for (mi, ti) in tasks:
                for i in prog['modules'][mi]['tasks'][ti]['inputs']:
                    if i.get('optional') and i.get('form') in ('class', 'name', 'gname'):
                        cands.append((i['mod'], i['task']))
            from tcv.gen import required_targets
            req = required_targets(prog)
            cands = [c for c in cands if c not in req]
            if cands:
                tm, tt = draw(st.sampled_from(cands))
                cls = prog['modules'][tm]['tasks'][tt]['cls']
                for fi, pn, nd in _all_nodes(case):
                    if nd['module'] == tm:
                        nd['tasks_how'] = 'list+excl'
                        nd['excluded'] = sorted(set(nd.get('excluded', [])) | {cls})
        elif kind == 'chg_context':
            ks = gen.keys_of(case)
            if ks:
                k = draw(st.sampled_from(sorted(ks)))
                ctx = case.get('context') or {'layers': [], 'as_list': True}
                nss = sorted(n for n in gen.namespaces_of(case) if n)
                layer = {'form': 'dict', 'global': {}, 'for_ns': {}}
                where = draw(st.sampled_from(['global'] + nss))
                # often a namespace that an earlier context layer already addresses (the layers are then merged per
                # namespace - and the earlier layer may be used alone by another chain of the same process)
                addressed = sorted({n for l in ctx['layers'] for n in l.get('for_ns', {})} & set(nss))
                if addressed and draw(st.booleans()):
                    where = draw(st.sampled_from(addressed))
                v = draw(gen.value_for(ks[k]))
                if where == 'global':
                    layer['global'][k] = v
                else:
                    layer['for_ns'][where] = {k: v}
                ctx['layers'].append(layer)
                ctx['as_list'] = True
                case['context'] = ctx
        elif kind == 'chg_default_param':
            # a dont-persist-default parameter moves away from its default
            cands = []
            for (mi, ti) in tasks:
                for p in prog['modules'][mi]['tasks'][ti]['params']:
                    if 'default' in p and not p.get('ignore') and not p.get('object') and not p.get('dtype'):
                        cands.append((mi, p))
            if any(p.get('dpdv') for _, p in cands):
                cands = [(mi, p) for mi, p in cands if p.get('dpdv')]
            if cands:
                mi, p = draw(st.sampled_from(cands))
                for fi, pn, nd in _all_nodes(case):
                    if nd['module'] == mi:
                        nv = _mutate_deep(draw, p['default']['v'])
                        # default elision compares with Python ==: [3.0] "is" the default [3].  Such look-alikes are kept
                        # out (DESIGN 3.3): a value is either type-strictly the default or unequal to it
                        from tcv.runtime import canon_param
                        try:
                            if nv == p['default']['v'] and canon_param(nv) != canon_param(p['default']['v']):
                                nv = [copy.deepcopy(p['default']['v']), 'moved']
                        except Exception:
                            pass
                        nd['values'][p.get('cfg') or p['name']] = nv
        elif kind == 'swap_mounts':
            # two mounts of one config node trade places: what was mounted `as left` is now `as right` and vice versa
            cands = [nd for fi, pn, nd in _all_nodes(case)
                     if len({u.get('ns') for u in nd['uses'] if u.get('ns')}) >= 2]
            if cands:
                nd = draw(st.sampled_from(cands))
                us = [u for u in nd['uses'] if u.get('ns')]
                a = draw(st.sampled_from(us))
                b = draw(st.sampled_from([u for u in us if u['ns'] != a['ns']]))
                a['ns'], b['ns'] = b['ns'], a['ns']
        elif kind == 'spell_default':
            # a not-persisted-at-default parameter that the config leaves out is written out with its default value
            # (a Path default as the string a config file can hold)
            cands = []
            for fi, pn, nd in _all_nodes(case):
                if nd['module'] is None:
                    continue
                for key, plist in gen.param_keys_of_module(prog['modules'][nd['module']]).items():
                    if key not in nd['values'] and plist and all('default' in p_ and p_.get('dpdv') and not p_.get('object')
                                                                 for p_ in plist):
                        if len({json.dumps(p_['default'], sort_keys=True, default=repr) for p_ in plist}) == 1:
                            cands.append((nd, key, plist[0]['default']['v'], bool(plist[0]['default'].get('as_path'))))
            if cands:
                typed = [c for c in cands if c[3]]
                nd, key, dv, _ = draw(st.sampled_from(typed if typed and draw(st.integers(0, 3)) > 0 else cands))
                nd['values'][key] = copy.deepcopy(dv)
        elif kind == 'uses_objects':
            # the root config given as Config(data=...) with Config OBJECTS in `uses` instead of path strings
            case['uses_as_objects'] = True
        elif kind == 'rename_mount':
            # the same pipeline mounted under another namespace name (x -> y): the tasks below keep their computation
            # (contexts address namespaces by name, so only context-free cases are rewritten)
            cands = [(nd, u) for fi, pn, nd in _all_nodes(case) for u in nd['uses'] if u.get('ns')]
            if cands and not case.get('context'):
                nd, u = draw(st.sampled_from(cands))
                taken = {x.get('ns') for x in nd['uses']}
                free = [n for n in ['y', 'n2', 'm', 'xn', 'train', 'k'] if n not in taken]
                u['ns'] = draw(st.sampled_from(free))
        labels.append(kind)
    return case, prefix, labels


def _wrap_layer(layer, ns):
    layer['for_ns'] = {f'{ns}::{k}': v for k, v in layer['for_ns'].items()}
    for sub in layer.get('nested', []):
        if sub.get('ns'):
            sub['ns'] = f'{ns}::{sub["ns"]}'
        else:
            _wrap_layer(sub['layer'], ns)


def _mutate_deep(draw, v):
    """A small mutation of a JSON-like value: replace / insert / delete a leaf at any depth, retag a scalar."""
    from tcv import values
    v = copy.deepcopy(v)
    if isinstance(v, list):
        op = draw(st.sampled_from(['elem', 'append', 'delete', 'wrap'] if v else ['append', 'wrap']))
        if op == 'elem':
            i = draw(st.integers(0, len(v) - 1))
            v[i] = _mutate_deep(draw, v[i])
        elif op == 'append':
            v.append(draw(st.sampled_from(values.LOOKALIKES)))
        elif op == 'delete':
            del v[draw(st.integers(0, len(v) - 1))]
        else:
            v = [v]
        return v
    if isinstance(v, dict) and '__object__' not in v:
        op = draw(st.sampled_from(['elem', 'add', 'delete'] if v else ['add']))
        if op == 'elem':
            k = draw(st.sampled_from(sorted(v)))
            v[k] = _mutate_deep(draw, v[k])
        elif op == 'add':
            v[draw(st.sampled_from(['zk', 'a', '']))] = draw(st.sampled_from(values.LOOKALIKES))
        else:
            del v[draw(st.sampled_from(sorted(v)))]
        return v
    choices = [x for x in values.LOOKALIKES]
    if isinstance(v, str):
        choices += [v + 'x', v[:-1], v + ' ', [v]]
    if isinstance(v, bool):
        choices += [int(v), str(v)]
    elif isinstance(v, int):
        choices += [v + 1, float(v) if abs(v) < 2 ** 50 else v - 1, str(v), [v]]
    return draw(st.sampled_from(choices))
