"""Regenerates /verif/MANIFEST.json from the table below:  /venv/bin/python -m tcv.manifest"""
import json
from pathlib import Path

ROOT = Path(__file__).resolve().parent.parent

ENGINE_PROPS = ['C01', 'C02', 'C03', 'C04', 'C07', 'C08', 'C09', 'C12', 'C13', 'C18', 'C19', 'C20']

# id -> (level category, technique, level text, level note, design section)
CHECKS = {
    'C07': (
        'exploration',
        'Hypothesis-generated forcing histories with run-sequence-salted values, checked after every step against the '
        'store/evaluator model (forced flags, has_data, exact run sets, values)',
        'All force entry points and flag combinations are interleaved with requests, new chains, MultiChains, restarts '
        'and sessions; because each run embeds its sequence number, "replaced by the new result" and "dependant used the '
        'input value of that time" are observable in the data; is_forced / has_data of every task of every live chain and '
        'the exact set of runs are compared with the model after every step.',
        'Handle-like values (directories, lazy readers) deleted under another chain are skipped; MultiChain.force by name.',
        'DESIGN.md §3, §4 C07',
    ),
    'C08': (
        'exploration',
        'Hypothesis-generated programs x config trees (plus labelled invalid mutations) compared with an independent '
        'reference model of input resolution and the dependency graph',
        'Generated task modules with every input declaration form are mounted under generated namespace trees; the '
        'library\'s task set, input task objects, optional defaults, graph edges and closure queries are compared with '
        'the reference model, and invalid declarations (dangling, ambiguous, cyclic, excluded target) must fail at '
        'construction. Sampled exploration of programs x configurations.',
        'The reference model (tcv/model.py) is trusted after cross-validation against the library (disagreements triaged '
        'both ways, see DESIGN.md Corrections); ~~patterns and grouped pattern targets are excluded as ambiguous.',
        'DESIGN.md §3, §4 C08',
    ),
    'C09': (
        'exploration',
        'Hypothesis-generated config trees, multi-config files and contexts (plus labelled invalid mutations) compared '
        'with the reference model of composition and precedence; aliasing probes on caller-owned objects',
        'Every task\'s bound parameter values and its computed value are compared with the model\'s precedence rules over '
        'generated trees/contexts; missing/wrong-typed/conflicting declarations must fail at construction; caller-owned '
        'context objects are snapshotted, container values are mutated through one task and must not be visible '
        'elsewhere, and a second Config from the same objects must agree again; every build is preceded, in the same '
        'process, by attempts with one of its files missing (a failed construction leaves nothing behind).',
        'Model trusted as for C08; cross-level context precedence follows "namespace over global".',
        'DESIGN.md §3, §4 C09',
    ),
    'C12': (
        'exploration',
        'differential check of generated pipelines against a frozen re-implementation of the 1.4.0 key/layout scheme, '
        'anchored by golden keys from the repository\'s example notebook',
        'Keys, locations and the exact set of files written are compared with an independent implementation of the '
        'documented scheme over generated programs/configs (all data classes, groups, namespaces, quotes/separators in '
        'values, objects, placeholders, both modes); the frozen implementation itself is checked against 14 keys '
        'rendered by an earlier release, directly and through the real example configs.',
        'Agreement with release 1.4.0 rests on the goldens plus reading the pinned source for value forms the goldens lack.',
        'DESIGN.md §4 C12',
    ),
    'C10': (
        'exploration',
        'exhaustive enumeration of a small name universe + Hypothesis-generated name sets against a structural oracle',
        'Every subset (size<=3, all declaration orders) of a 32-name universe x 75 queries is enumerated and larger '
        'random name sets are generated; each answer of _find_task_full_name / Chain[...] / InputTasks[...] is compared '
        'with an independent structural resolution rule. Exhaustive inside the universe, sampled outside; absence of '
        'violations beyond what was explored is not established.',
        'Chain/InputTasks containers are exercised with directly assigned task maps; resolution through real chain '
        'construction is covered by C08.',
        'DESIGN.md §4 C10',
    ),
    'C01': (
        'exploration',
        'Hypothesis-generated histories over one shared data directory with provenance-revealing task values, compared '
        'with an independent reference evaluation of each requesting configuration',
        'Every generated run returns a digest of exactly what it received, so a stale, foreign or wrongly wired result '
        'changes the value; 2-4 config variants that differ at any depth share one directory and are exercised through '
        'chains, MultiChains, forcing, injected failures, restarts and pristine forked interpreters; every value returned '
        'anywhere (and every task of every chain at the end, also from a fresh interpreter) must equal the reference '
        'evaluation.',
        'Deterministic task bodies (stated side condition); constant global_vars per history; quote-free strings (the '
        'quote collision is C03\'s known finding); processes run sequentially.',
        'DESIGN.md §3, §4 C01',
    ),
    'C02': (
        'exploration',
        'metamorphic testing: Hypothesis-generated pipelines under compositions of computation-preserving rewritings '
        '(validated by the reference model\'s descriptor), plus spawned interpreters with different PYTHONHASHSEED',
        'Each generated case is rebuilt after 1-3 rewritings that the model certifies as computation-preserving (renames, '
        'namespace mounting, permutations, JSON/YAML, multi-config, ignored/default parameters, config->context moves, '
        'global_vars values, absent optional inputs); keys and relative paths must be equal and results computed through '
        'the original chain must be loaded with zero runs through the rewritten one; keys are also compared across real '
        'interpreter processes with different hash seeds.',
        'Two open known findings (AutoParameterObject rendering mappings/sets with repr()) are excluded by specific '
        'matchers; user-written ParameterObject.repr is outside the statement.',
        'DESIGN.md §4 C02',
    ),
    'C03': (
        'exploration',
        'Hypothesis-generated value pairs (mutation-based and adversarial) against a type-strict canonical form, and '
        'generated pipelines under computation-changing rewritings checked through the reference model\'s descriptor',
        'Value level: tens of thousands of pairs of unequal JSON-like values must print differently wherever they enter '
        'a key text. Chain level: a change at any upstream distance must move exactly the tasks whose descriptor changed. '
        'Object level: objects of a small AutoParameterObject class hierarchy, represented in a generated order, must '
        'print differently whenever class or a persisted argument differs. '
        'One open known finding (unescaped quotes) is excluded by a matcher that requires the frozen 1.4.0 scheme to '
        'collide too and a quote to be present.',
        'sha256 collisions not considered; default elision follows Python == (type-consistent generation).',
        'DESIGN.md §4 C03',
    ),
    'C04': (
        'exploration',
        'Hypothesis-generated histories (chains, MultiChains, value requests, inspections, restarts, fresh-interpreter '
        'sessions) checked step by step against a store/evaluator reference model via an invocation log',
        'Every generated run method logs (task, storage key) through the harness runtime; after each step of a generated '
        'history the log increment must equal the model\'s predicted pull-closure exactly, construction/inspection must '
        'add nothing, and no location may be run twice over the history - including across pristine forked processes '
        'working on the same data directory.',
        'Processes run sequentially; run bodies read all their inputs; the two reference models are trusted after '
        'cross-validation.',
        'DESIGN.md §3, §4 C04',
    ),
    'C05': (
        'fault_enumeration',
        'audit-hook crash-point recording with exhaustive enumeration of crash states and torn-file prefixes per '
        'generated scenario, plus injected raised faults; recovery oracle on fresh chains',
        'For every data kind x {first computation, forced recomputation} x generated parameter values, every '
        'file-system-mutating event of the request is a crash point (directory snapshot before it) and every file being '
        'written is torn at all (small files) or structurally chosen prefix lengths; ALL states of a scenario are checked: '
        'a later chain either sees no result and recomputes exactly once, or sees the complete correct value. Raised '
        'faults (before/within run, KeyboardInterrupt before/within run, in generator bodies, mistyped, unserialisable; on '
        'first and on forced computation) are checked for recovery in the same and in a new chain, and for the '
        'work-directory protocol of DirData / ContinuesData (also with a reader of the earlier finished result between '
        'an interrupted and the resumed recomputation). Data kinds include FigureData.',
        'Process death, not power loss (sequential writes persist up to the crash point); h5py I/O is not exercised; '
        'states are probed by new chains in the same process.',
        'DESIGN.md §4 C05',
    ),
    'C06': (
        'exploration',
        'Hypothesis strategies per storable domain driven through real tasks in real chains; round-trip oracle with '
        'type-strict equality and before/after file digests',
        'For every storable data type a generated value is returned by a real task, read back by the computing chain and '
        'by fresh chains on the same directory, optionally recomputed (forced) with a second value over the first; all '
        'must be type-strictly equal to what run returned, and loading must leave every stored file byte-identical - also '
        'after the loaded value was mutated in place by its receiver; a load interrupted part-way and retried on the same '
        'task must fail or return the whole value, never the part read so far.',
        'Later chains are new Chain objects in the same process; NaN/inf, >64-bit ints, non-str keys, tuples, object '
        'arrays are outside the stated domain.',
        'DESIGN.md §4 C06',
    ),
    'C11': (
        'exploration',
        'Hypothesis-generated structures/strings from a placeholder grammar against a hand-written reference substituter; '
        'metamorphic checks (second application, copies, two global_vars assignments) at function and Config/Chain level',
        'Strings are built from fragments that include defined/undefined/adjacent/repeated placeholders and brace noise; '
        'every string at every depth is compared with an independent scanner, non-strings type-strictly, and the '
        'persistence representation (repr, copies, storage key) is checked through real Config/Chain objects incl. '
        '`uses` paths, context values and object-definition arguments. Sampled exploration.',
        'Placeholders only in string values (not mapping keys); identifier-like names.',
        'DESIGN.md §4 C11',
    ),
    'C13': (
        'exploration',
        'Hypothesis-generated MultiChain histories compared with the reference model of the standalone chains '
        '(identity structure, values, locations, run sets, forcing)',
        'MultiChains over 2-4 generated config variants are compared member by member with the model of the standalone '
        'chain; object identity across members must coincide exactly with "same task class and same key"; values '
        'computed through one member must be served to the others without a run; forcing through the MultiChain must '
        'reach every member and recompute shared tasks once.',
        'Ignored parameters of shared objects are not compared; distinct member names.',
        'DESIGN.md §4 C13',
    ),
    'C14': (
        'exploration',
        'Hypothesis-generated operation sequences (get / get_or_compute / force / failing computer / sub-caches / re-open '
        '/ file damage) against a dictionary model; every strict prefix of written cache files enumerated',
        'A dictionary model predicts return value, computer call count and exception of every operation for every cache '
        'type; damage steps (delete, empty, truncate, garbage, foreign key) are part of the sequences and all truncation '
        'lengths of generated entries are enumerated (exhaustive per entry up to 400 bytes).',
        'Corrupt = content the loader rejects; single-threaded.',
        'DESIGN.md §4 C14',
    ),
    'C15': (
        'exploration',
        'deterministic cooperative scheduler owning the thread schedule (lock, file open/write-chunk/read, computer are '
        'yield points); Hypothesis-drawn schedules plus bounded depth-first enumeration; safety oracle over the event log',
        '2-3 real threads call get / get_or_compute / force on one key while the harness decides at every yield point '
        'who moves next, so torn windows (between truncate and write, between write chunks, between a reader\'s reads) '
        'are actually visited; every returned value must be a complete computation\'s value, computers and writers must '
        'not overlap, the entry at quiescence must be the last complete write. Sampled schedules + bounded DFS; exhaustive '
        'only where the DFS terminates within its bound (reported per configuration). Also: callers spread over two '
        'keys of one cache directory (per-key guarantees), and 2-4 real forked processes on one key with the OS owning '
        'the schedule (safety clauses only).',
        'flock excludes threads with separate file descriptions exactly as it excludes processes; single reads/chunk '
        'writes are atomic.',
        'DESIGN.md §4 C15',
    ),
    'C16': (
        'exploration',
        'Hypothesis-generated classes with cached methods and call sequences (binding x spelling x control keyword) '
        'against a dictionary model keyed by the type-strict canonical binding',
        'Generated signatures (positional / defaulted / keyword-only), decorator forms, back-ends and call sequences '
        'are run against a model that predicts for every call whether the method executes, with which arguments, what '
        'is returned and how many entries exist. Sampled exploration; finds spelling-dependent keys, leaked ignored '
        'arguments, shared entries, wrong control-keyword behaviour.',
        'JSON-like argument values with string keys only; no *args/**kwargs signatures, no custom key functions.',
        'DESIGN.md §4 C16',
    ),
    'C17': (
        'exploration',
        'Hypothesis-generated inputs plus a completion-order controller (the harness dictates which in-flight worker '
        'finishes next); all completion orders enumerated for single chunks of <=5 elements; oracle = sequential map',
        'The worker completion order is a generated input, so ordering bugs that real scheduling almost never shows '
        '(workers finishing out of submission order) are produced in most cases; results, call counts and exception '
        'propagation (Exception, KeyError and StopIteration subclasses) are compared with the sequential map, chunked '
        'with its specification; call forms (progress bar, defaults, total, desc, parallel_starmap) vary; a call that '
        'does not come back although every call of f has finished is a violation (two idle alarm periods). Exhaustive '
        'for one chunk of <=5 elements, sampled beyond.',
        'Completion order is controlled inside the mapped function; asyncio-internal scheduling is not. Calls are made '
        'from the main thread.',
        'DESIGN.md §4 C17',
    ),
    'C18': (
        'exploration',
        'Hypothesis-generated histories with tagged log messages and run-info records emitted by every run (also from '
        'inside generator bodies), records of every stored result checked after every step against the run that produced it',
        'Each run tags its messages and records with its run id; after every step the run info and log of every task whose '
        'location was last written successfully are compared field by field (task, every parameter representation, input '
        'keys, config, records, exact tagged message list, no foreign/garbled lines); failures, retries in the same '
        'process and forced recomputations are part of the histories; one history in four runs in name mode with sibling '
        'dotted config names sharing one directory; one run in four constructs another chain of its config mid-run.',
        'After a failed attempt over a stored result the run info must still be the producing run\'s; nothing is asserted '
        'about the log until the next success; logger thresholds set by the user are honoured (a run that logs nothing '
        'leaves an empty log); in-memory tasks are not checked; input keys are asserted in parameter mode only (in name '
        'mode every key is the config name, which the run info gives as config.name).',
        'DESIGN.md §4 C18',
    ),
    'C19': (
        'exploration',
        'differential testing: Hypothesis-generated task families run through TestChain / create_test_task and through a '
        'generated real chain in which mocks are replaced by source tasks, plus a reference evaluation',
        'For generated families, real/mock splits, parameter assignments (objects as definitions or instances, a '
        'ChainObject parameter) and mock values (every data kind, falsy values, None) the helper\'s values must equal '
        'those of a real chain built for the same family and the reference digest; mocks must never run nor be persisted, '
        'also after forcing through the helper chain; missing inputs / parameters must be reported at construction.',
        'One base_dir per assignment; the real-chain differential is skipped when a mock value is None.',
        'DESIGN.md §4 C19',
    ),
    'C20': (
        'exploration',
        'Hypothesis-generated file-based pipelines with a generated subset of stored name-mode results and a generated '
        'sequence of dry/real migrations, checked against the two reference key schemes and source-tree digests',
        'A name-mode chain computes everything, a generated subset of results is deleted, migrate_to_parameter_mode is '
        'called 1-3 times (dry / real); the parameter-mode chain on the target must have data for exactly the tasks that '
        'had a result, load equal values with zero runs, the source tree must stay byte-identical, dry runs must write '
        'nothing and a repeated real run must change nothing.',
        'Name mode within its documented limits (no context, no file mounted twice).',
        'DESIGN.md §4 C20',
    ),
}

NOT_BUILT_REASON = 'check not built yet in this round (planned in DESIGN.md §4); not claimed until it runs'


def build():
    props = [json.loads(l) for l in (ROOT / 'properties.jsonl').read_text().splitlines() if l.strip()]
    checks = []
    na = []
    for p in props:
        pid = p['id']
        if pid not in CHECKS:
            na.append({'property_id': pid, 'reason': NOT_BUILT_REASON})
            continue
        cat, tech, text, note, ref = CHECKS[pid]
        checks.append({
            'property_id': pid,
            'quick_cmd': f'./check {pid} --tier quick',
            'thorough_cmd': f'./check {pid} --tier thorough',
            'evidence_file': f'evidence/{pid}.json',
            'replay_cmd_template': f'./check {pid} --replay {{path}}',
            'engine': 'pipeline-engine' if pid in ENGINE_PROPS else 'direct',
            'level_claimed': {'category': cat, 'text': text, 'design_ref': ref},
            'level_note': note,
            'technique': tech,
        })
    man = {
        'version': 1,
        'setup_cmd': './setup.sh',
        'hooks': {
            'guard': 'TASKCHAIN_VERIF',
            'enable': 'no hooks: all instrumentation lives in /verif (generated run bodies, audit hooks in child '
                      'processes, a scheduling FileLock subclass swapped in from the harness); the guard name is '
                      'reserved and unused',
            'baseline_off_cmd': 'cd /repo && /venv/bin/python -m pytest -ra -q -p no:cacheprovider --timeout=900 '
                                '--continue-on-collection-errors',
            'source_commits': [],
            'add_only': True,
        },
        'engines': [
            {'name': 'pipeline-engine', 'path': 'tcv/', 'serves_properties': ENGINE_PROPS,
             'kind_free_text': 'Hypothesis-generated programs (task classes) x config trees x contexts x histories, '
                               'run side by side with an independent reference model (tcv/model.py)'},
            {'name': 'direct', 'path': 'tcv/props/', 'serves_properties':
                [p['id'] for p in props if p['id'] not in ENGINE_PROPS],
             'kind_free_text': 'Hypothesis strategies / stateful machines / exhaustive enumerations driving the '
                               'library API directly'},
        ],
        'checks': checks,
        'notes': 'All checks: exit 0 = held on everything explored (KNOWN-FINDING lines possible), 1 = VIOLATION, '
                 '2 = harness error. VERIF_SEED selects the Hypothesis seeds; PYTHONHASHSEED is pinned to 0 by ./check. '
                 'Known findings: known-findings.txt. Every run first replays regressions/<ID>/*.json (shrunk cases of earlier '
                 'catches) with the property\'s oracle, without Hypothesis, then runs the generated campaign.',
        'not_applicable': na,
    }
    (ROOT / 'MANIFEST.json').write_text(json.dumps(man, indent=1) + '\n')
    return man


if __name__ == '__main__':
    m = build()
    print('checks:', [c['property_id'] for c in m['checks']])
    print('not claimed:', [c['property_id'] for c in m['not_applicable']])
