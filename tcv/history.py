"""Histories over one data directory: executor (runs operations against the library, in this process or in a
fresh-interpreter session) and the store/evaluator reference model that predicts every observable of every step.

A history = {'program', 'variants': [case, ...] (same program), 'ops': [...], 'salt': bool}
Operations (tasks are addressed by index into the sorted task names of the chain, modulo its size):
  {'op': 'chain', 'variant': i, 'pm': bool}          build a chain (new slot)
  {'op': 'multichain', 'variants': [i, j, ...]}       build a MultiChain (new slot)
  {'op': 'value', 'slot': k, 'member': m, 'task': t}  request a value
  {'op': 'inspect', 'slot': k, 'member': m, 'what': ...}
  {'op': 'force_task', 'slot', 'member', 'task', 'delete': bool}
  {'op': 'force_chain', 'slot', 'member', 'tasks': [t...], 'recompute': bool, 'delete': bool, 'as': 'name'|'object'|'single'}
  {'op': 'fault', 'slug_of': [slot, member, task], 'n': 1}   the next n runs of that task class raise
  {'op': 'restart'}                                   drop every chain object
  {'op': 'session', 'ops': [...]}                     the nested ops run in a fresh interpreter on the same directory
"""
import json
import os
import sys
import traceback
from pathlib import Path

from tcv import build, hyp, model
from tcv.hyp import Violation
from tcv.runtime import RT, InjectedFault, InjectedInterrupt, digest_of, provenance, canon_param

INSPECTIONS = ['tasks_df', 'str', 'md', 'has_data', 'data_path', 'run_info', 'log', 'readable', 'graph', 'is_forced',
               'readable_default', 'readable_keep']


# ---- executor ---------------------------------------------------------------------------------------------

class Executor:
    def __init__(self, hist, data_dir, cfg_root):
        self.hist = hist
        self.data = Path(data_dir)
        self.cfg_root = Path(cfg_root)
        self.slots = []      # list of ('chain', Chain) | ('multi', MultiChain, [names])
        self.obj_ids = {}
        self.keep = []
        self.registries = {}
        self.ctx_pool = {}     # caller-owned context dicts, reused by every chain construction of this process
        self._seen = {}
        self.writer = {}
        self.last_run = {}

    def cfgdir(self, i):
        # (a variant may live in another variant's directory: a second root file next to the same prerequisite files)
        return self.cfg_root / f"v{self.hist['variants'][i].get('cfgdir_of', i)}"

    def write_files(self):
        for i, case in enumerate(self.hist['variants']):
            build.write_files(case, self.cfgdir(i))

    def oid(self, obj):
        if id(obj) not in self.obj_ids:
            self.obj_ids[id(obj)] = len(self.obj_ids)
            self.keep.append(obj)
        return self.obj_ids[id(obj)]

    def chain_of(self, op):
        if not self.slots:
            return None
        s = self.slots[op.get('slot', 0) % len(self.slots)]
        if s[0] == 'chain':
            return s[1]
        names = s[2]
        return s[1][names[op.get('member', 0) % len(names)]]

    def task_of(self, chain, t):
        names = sorted(chain.tasks)
        return names[t % len(names)]

    def describe_chain(self, chain):
        return {'tasks': {n: self.oid(t) for n, t in chain.tasks.items()}}

    def do(self, op):
        import taskchain
        start = len(RT.log)
        n_special = len(RT.special)
        res, err = None, None
        kind = op['op']
        try:
            with hyp.quiet_output():
                if kind == 'chain':
                    case = self.hist['variants'][op['variant'] % len(self.hist['variants'])]
                    cfg = build.make_config(case, self.data, self.cfgdir(op['variant'] % len(self.hist['variants'])),
                                            ctx_pool=self.ctx_pool)
                    if op.get('registry') is not None:
                        # a caller-owned registry shared by several chains (Chain(config, shared_tasks=registry))
                        reg = self.registries.setdefault(op['registry'], {})
                        ch = taskchain.Chain(cfg, shared_tasks=reg, parameter_mode=op.get('pm', True))
                    else:
                        ch = cfg.chain(parameter_mode=op.get('pm', True))
                    self.slots.append(('chain', ch))
                    res = self.describe_chain(ch)
                elif kind == 'multichain':
                    configs, names = [], []
                    for j, vi in enumerate(op['variants']):
                        vi = vi % len(self.hist['variants'])
                        cfg = build.make_config(self.hist['variants'][vi], self.data, self.cfgdir(vi), ctx_pool=self.ctx_pool)
                        cfg._name = f'mc{j}_{cfg._name}'  # distinct names (documented requirement)
                        configs.append(cfg)
                        names.append(cfg.name)
                    mc = taskchain.MultiChain(configs, parameter_mode=op.get('pm', True))
                    self.slots.append(('multi', mc, names))
                    res = {'members': [self.describe_chain(mc[n]) for n in names]}
                elif kind == 'restart':
                    self.slots.clear()
                    self.obj_ids.clear()
                    self.keep.clear()
                    self.registries.clear()
                    self.ctx_pool.clear()
                    import gc
                    gc.collect()
                elif kind == 'fault':
                    ch = self.chain_of({'slot': op['slug_of'][0], 'member': op['slug_of'][1]})
                    if ch is not None:
                        n = self.task_of(ch, op['slug_of'][2])
                        res = arm_fault(ch.tasks[n], op)
                else:
                    ch = self.chain_of(op)
                    if ch is None:
                        return {'skipped': True, 'log': [], 'result': None, 'error': None}
                    if kind == 'value':
                        n = self.task_of(ch, op['task'])
                        res = {'task': n, 'digest': digest_of(ch.tasks[n].value)}
                    elif kind == 'force_task':
                        n = self.task_of(ch, op['task'])
                        if op.get('reset_only'):
                            ch.tasks[n].reset_data()   # drops the in-memory result only: nothing forced, nothing deleted
                        else:
                            ch.tasks[n].force(delete_data=op.get('delete', False))
                        res = {'task': n}
                    elif kind == 'force_chain':
                        names = [self.task_of(ch, t) for t in op['tasks']]
                        how = op.get('as', 'name')
                        arg = names if how in ('name', 'generator') else [ch.tasks[n] for n in names]
                        if how == 'single':
                            arg = names[0]
                            names = names[:1]
                        s = self.slots[op.get('slot', 0) % len(self.slots)]
                        target = s[1] if (s[0] == 'multi' and op.get('through_multi')) else ch
                        by_object = False
                        if target is not ch and how == 'object':
                            # through the MultiChain a task OBJECT can be given only if every member holds that very
                            # object (under whatever name it is mounted there); otherwise names are used
                            objs = [ch.tasks[n] for n in names]
                            members = [s[1][m_] for m_ in s[2]]
                            if all(any(t_ is o_ for t_ in m_.tasks.values()) for o_ in objs for m_ in members):
                                arg, by_object = objs, True
                            else:
                                arg = names
                        if how == 'generator':
                            arg = (n_ for n_ in names)  # any iterable of names is accepted, also a one-shot one
                        target.force(arg, recompute=op.get('recompute', False), delete_data=op.get('delete', False))
                        res = {'tasks': names, 'by_object': by_object}
                    elif kind == 'inspect':
                        res = self.inspect(ch, op['what'])
                    elif kind == 'loglevel':
                        # the user turns a task's logger up or down (loggers are per task full name, process-wide;
                        # constructing a task sets its logger to DEBUG again)
                        import logging
                        n = self.task_of(ch, op['task'])
                        t = ch.tasks[n]
                        t.logger.setLevel(getattr(logging, op['level']))
                        res = {'task': n, 'logger': t.fullname}
        except (InjectedFault, InjectedInterrupt) as e:
            err = 'InjectedFault'
        except Exception as e:
            err = f'{type(e).__name__}: {e}'[:400]
            if len(RT.special) < n_special:
                err = 'InjectedFault'  # an armed save-time fault fired (unserialisable or mistyped value)
            if os.environ.get('TCV_DEBUG'):
                traceback.print_exc(file=sys.__stderr__)
        obs = {'log': [list(x) for x in RT.log[start:]], 'result': res, 'error': err}
        return obs

    def inspect(self, ch, what):
        if what == 'tasks_df':
            df = ch.tasks_df
            return {'rows': len(df), 'computed': {n: (None if c is None else bool(c)) for n, c in df['computed'].items()}}
        if what == 'str':
            return {'len': len(str(ch))}
        if what == 'md':
            return {'len': len(ch._repr_markdown_())}
        if what == 'has_data':
            return {n: bool(t.has_data) for n, t in ch.tasks.items()}
        if what == 'is_forced':
            return {n: bool(t.is_forced) for n, t in ch.tasks.items()}
        if what == 'data_path':
            return {n: (None if t.data_path is None else str(Path(t.data_path).relative_to(self.data)))
                    for n, t in ch.tasks.items()}
        if what == 'run_info':
            return {n: (t.run_info or {}).get('task', {}).get('name') for n, t in ch.tasks.items()}
        if what == 'log':
            return {n: (None if t.log is None else len(t.log)) for n, t in ch.tasks.items()}
        if what == 'records':
            out = {}
            for n, t in ch.tasks.items():
                out[n] = {'run_info': t.run_info, 'log': t.log, 'ns': t.get_config().namespace,
                          'cls': type(t).__name__, 'module': type(t).__module__}
            return out
        if what == 'readable':
            ch.create_readable_filenames(name='nice')
            return {}
        if what == 'readable_default':
            # default link name = the config's name (in name mode that IS the result's own file name)
            ch.create_readable_filenames()
            return {}
        if what == 'readable_keep':
            ch.create_readable_filenames(name='nice', keep_existing=True)
            return {}
        if what == 'graph':
            n = sorted(ch.tasks)[0]
            return {'req': len(ch.required_tasks(n)), 'dep': len(ch.dependent_tasks(n)), 'nodes': len(ch.graph)}
        raise ValueError(what)

    def flags(self):
        """(is_forced, has_data) of every task of every live chain - an inspection, runs nothing."""
        out = []
        for s in self.slots:
            chains = [s[1]] if s[0] == 'chain' else [s[1][n] for n in s[2]]
            with hyp.quiet_output():
                out.append([{n: [bool(t.is_forced), bool(t.has_data)] for n, t in ch.tasks.items()} for ch in chains])
        return out


def arm_fault(task, op):
    """Arm the next run of `task`'s class to fail.  how = error (run raises), interrupt (run raises KeyboardInterrupt),
    save (the run completes but its value cannot be stored: unserialisable element / generator body raising while it is
    consumed), mistyped (the returned value fails the type check).  Where a form does not apply to the data kind the
    plain error is armed, so the model only needs to know that the next run of that class fails."""
    slug, how, k = task.slugname, op.get('how', 'error'), task.meta.get('tcv_kind', 'dict')
    RT.fail.pop(slug, None)
    RT.special.pop(slug, None)
    if how == 'save' and k in ('dict', 'list', 'generator', 'lazy'):
        RT.special[slug] = 'gen-mid' if k in ('generator', 'lazy') else 'unserializable'
    elif how == 'mistyped' and k in ('dict', 'list', 'str', 'int', 'numpy', 'frame', 'dir', 'list_numpy'):
        RT.special[slug] = 'mistyped'
    else:
        RT.fail[slug] = op.get('n', 1) * (-1 if how == 'interrupt' else 1)
    return slug


# ---- reference model of the store and the lazy evaluator -------------------------------------------------------

HANDLE_KINDS = ('dir', 'lazy')


class Obj:
    """One task object of a chain (names sharing it are the same computation)."""

    def __init__(self, mt):
        self.mt = mt
        self.mem = None
        self.forced = False
        self.maybe = None   # a value the object MAY have loaded (input of a dependant whose attempt was cut short)
        self.wired = None   # the input objects it was first wired to (name mode: see MChain)

    @property
    def persisting(self):
        return self.mt.kind != 'memory'


class MChain:
    def __init__(self, mtasks, registry=None, pm=True):
        self.mt = mtasks
        self.objs = {}
        self.by_name = {}
        registry = registry if registry is not None else {}
        for n, t in mtasks.items():
            k = (t.slug, t.key)
            if k not in registry:
                registry[k] = Obj(t)
            self.by_name[n] = registry[k]
        self.pm = pm
        # a shared object may have been created by another chain (MultiChain / shared registry) under another name:
        # inside this chain its inputs are those of one of ITS names here
        self.local_mt = {}
        for n, o in self.by_name.items():
            self.local_mt.setdefault(id(o), mtasks[n])
        if not pm:
            # name mode: the key is the config's name and says nothing about upstream tasks.  A task of a prerequisite
            # config that two chains share, whose inputs (a pattern reaching into the root's namespace) are different
            # objects in them, is one object wired to whichever chain was built last - a use name mode does not cover
            # (the config name must identify the computation)
            for n, o in self.by_name.items():
                ins = sorted(id(self.by_name[i['target']]) for i in mtasks[n].inputs if i['present'])
                if o.wired is None:
                    o.wired = ins
                elif o.wired != ins:
                    raise model.OutOfDomain('name mode: a task shared by several chains has different upstream tasks in them')

    def mt_of(self, o):
        return self.local_mt.get(id(o), o.mt)

    def obj(self, n):
        return self.by_name[n]

    def owner(self, o):
        return self

    def inputs(self, o):
        return [self.by_name[i['target']] for i in self.mt_of(o).inputs if i['present']]

    def read_inputs(self, o):
        t = self.mt_of(o)
        return [self.by_name[i['target']] for i in t.inputs if i['present'] and not model.unread(t, i)]

    def descendants(self, o):
        out, todo = set(), [o]
        while todo:
            x = todo.pop()
            for n, t in self.mt.items():
                y = self.by_name[n]
                if y not in out and any(self.by_name[i['target']] is x for i in t.inputs if i['present']):
                    out.add(y)
                    todo.append(y)
        return out


class StoreModel:
    """Predicts, for every operation, the runs it causes, the values returned, flags and stored results."""

    def __init__(self, hist, cfg_root, salt=False):
        self.hist = hist
        self.cfg_root = Path(cfg_root)
        self.salt = salt
        self.store = {}          # location -> digest currently stored
        self.procs = {'main': []}
        self.runs_per_location = {}
        self.runs_per_memobj = {}
        self.armed = {}
        self._mt_cache = {}
        self.registries = {}
        self._seen = {}
        self.writer = {}
        self.last_run = {}
        self.levels = {}      # (process, task full name) -> logger threshold set by the user (C18)
        self._cur_proc = 'main'

    def mtasks(self, vi, pm=True, root_name_prefix=None):
        key = (vi, pm, root_name_prefix)
        if key not in self._mt_cache:
            self._mt_cache[key] = model.build_tasks(self.hist['variants'][vi],
                                                    self.cfg_root / f"v{self.hist['variants'][vi].get('cfgdir_of', vi)}", pm,
                                                    root_name_prefix=root_name_prefix)
        return self._mt_cache[key]

    # -- helpers
    def slots(self, proc):
        return self.procs.setdefault(proc, [])

    def chain_of(self, proc, op):
        sl = self.slots(proc)
        if not sl:
            return None
        s = sl[op.get('slot', 0) % len(sl)]
        if s[0] == 'chain':
            return s[1]
        return s[1][op.get('member', 0) % len(s[1])]

    @staticmethod
    def task_of(mch, t):
        names = sorted(mch.mt)
        return names[t % len(names)]

    def loc(self, o):
        return model.location(o.mt)

    def need(self, mch, o, acc):
        """Objects whose run a request of `o` triggers (lazy pull)."""
        if o.mem is not None or o in acc:
            return
        if o.maybe is not None and (o.forced or self.store.get(self.loc(o)) != o.maybe):
            raise model.OutOfDomain('an input of a cut-short attempt may or may not have been loaded before its stored '
                                    'result changed')
        if o.persisting and self.loc(o) in self.store and not o.forced:
            return
        for i in mch.read_inputs(o):
            self.need(mch, i, acc)
        acc.append(o)

    def current(self, mch, o):
        """Digest the object holds or would load; None if it has to be computed."""
        if o.mem is not None:
            if o.mt.kind in HANDLE_KINDS:
                # the in-memory value is a handle to the stored result (a directory path, a lazy file reader)
                if self.loc(o) not in self.store:
                    raise model.OutOfDomain('a stored result was deleted while another chain held a handle to it')
                return self.store[self.loc(o)]
            return o.mem
        if o.maybe is not None:
            # the library object may or may not hold `maybe` in memory: only a problem if it matters
            now = self.store.get(self.loc(o)) if (o.persisting and not o.forced) else None
            if now != o.maybe:
                raise model.OutOfDomain('an input of a cut-short attempt may or may not have been loaded before its '
                                        'stored result changed')
            o.maybe = None
        if o.persisting and self.loc(o) in self.store and not o.forced:
            return self.store[self.loc(o)]
        return None

    def expected_digest(self, mch, o, seq):
        mch = mch.owner(o)
        t = mch.mt_of(o)
        ignored = {p['name'] for p in t.spec['params'] if p.get('ignore')}
        pv = {k: canon_param(v) for k, v in t.params.items() if k not in ignored}
        present = [i for i in t.inputs if i['present'] and not model.unread(t, i)]
        vals = []
        for i in present:
            io = mch.by_name[i['target']]
            d = self.current(mch, io)
            if d is None:
                return None
            if io.mem is None:
                io.mem = d  # it was loaded to serve this run
            vals.append((i, None if io.mt.kind == 'gen_empty' else d))
        if t.spec['style'] == 'all':
            iv = sorted(((i['key'].split('::')[-1], d) for i, d in vals), key=lambda kv: (kv[0], str(kv[1])))
        else:
            iv = [(i['idx'], d) for i, d in vals]
        return provenance(t.slug, pv, iv, salt=seq if self.salt else None)

    def consume_runs(self, mch, predicted, log, info, allow_failure_of=None):
        """Check the observed run log of one step against the predicted set; update memory and store.
        Returns the object whose run failed by injected fault (or None)."""
        pending = list(predicted)
        failed = None
        for entry in log:
            fullname, nfp, _oid, seq, slug = entry[:5]
            # (a shared object logs the full name of its first mount, and member chains of a MultiChain may hold
            #  different objects under one name: identify the object by task class and storage key)
            cands = [o for o in pending if o.mt.slug == slug and o.mt.key == nfp]
            if not cands:
                raise Violation('unexpected-run', dict(info, ran=fullname, key=nfp,
                                                       predicted=[o.mt.fullname for o in predicted]))
            o = cands[0]
            pending.remove(o)
            if self.armed.get(slug, 0) > 0:
                self.armed[slug] -= 1
                failed = o
                o.mem = None
                # the failing task had fetched ALL its inputs before its body ran (arguments are gathered first): those
                # served from storage are now in memory.  Dependants whose own attempt was under way had fetched SOME of
                # theirs: which ones is an implementation detail, so they are only remembered as "maybe loaded".
                try:
                    self.expected_digest(mch, o, seq)
                except model.OutOfDomain:
                    raise
                for x in pending:
                    xm = mch.owner(x)
                    for i_ in xm.mt_of(x).inputs:
                        if i_['present'] and not model.unread(xm.mt_of(x), i_):
                            io = xm.by_name[i_['target']]
                            if io.mem is None and io is not o and io.persisting and self.loc(io) in self.store \
                                    and not io.forced:
                                io.maybe = self.store[self.loc(io)]
                # nothing is asserted about records after a failed run - including the dependants whose own attempt had
                # already started (and opened their log) when the input failed
                # ... but the run info is written only after a value was stored, so a result that is still there keeps
                # the run info of the run that produced it; only the log (opened when the attempt started) is the attempt's
                for x in [o] + pending:
                    if x.persisting and self.loc(x) in self.last_run:
                        self.last_run[self.loc(x)] = dict(self.last_run[self.loc(x)], log_valid=False)
                break
            want = self.expected_digest(mch, o, seq)
            got = entry[5] if len(entry) > 5 else None
            if want is None:
                raise Violation('ran-before-inputs-available', dict(info, ran=fullname))
            if got is not None and got != want:
                raise Violation('run-received-wrong-inputs-or-parameters', dict(info, ran=fullname, got=got, want=want))
            o.mem = want
            if o.persisting:
                self.store[self.loc(o)] = want
                self.writer[self.loc(o)] = id(mch)
                lvl_ = self.levels.get((self._cur_proc, fullname), 10)
                self.last_run[self.loc(o)] = {'seq': seq, 'obj': o, 'chain': mch.owner(o), 'fullname': fullname,
                                              'level': 10 if lvl_ is None else lvl_}
                if lvl_ is None:
                    self.last_run[self.loc(o)]['log_valid'] = False   # (threshold unknown: nothing asserted about the log)
                self.runs_per_location[self.loc(o)] = self.runs_per_location.get(self.loc(o), 0) + 1
            else:
                self.runs_per_memobj[id(o)] = self.runs_per_memobj.get(id(o), 0) + 1
        if failed is None and pending:
            # (the same domain restriction as in current(): a run that was handed a handle - directory path, lazy reader -
            #  to a stored result that another chain has deleted meanwhile fails before it can be observed)
            for x in pending:
                for io in mch.owner(x).read_inputs(x):
                    if io.mem is not None and io.mt.kind in HANDLE_KINDS and self.loc(io) not in self.store:
                        raise model.OutOfDomain('a stored result was deleted while another chain held a handle to it')
            raise Violation('expected-run-missing', dict(info, missing=[o.mt.fullname for o in pending],
                                                         ran=[e[0] for e in log]))
        if failed is not None and len(log) and log[-1][4] != failed.mt.slug:
            raise Violation('runs-after-failure', dict(info, ran=[e[0] for e in log]))
        return failed

    # -- one step
    def step(self, proc, op, obs, info):
        kind = op['op']
        self._cur_proc = proc
        sl = self.slots(proc)
        err = obs.get('error')
        log = obs.get('log', [])
        if obs.get('skipped'):
            return {'kind': 'skipped'}
        if kind in ('chain', 'multichain'):
            if log:
                raise Violation('construction-ran-tasks', dict(info, ran=[e[0] for e in log]))
            try:
                if kind == 'chain':
                    vi = op['variant'] % len(self.hist['variants'])
                    reg = None
                    if op.get('registry') is not None:
                        reg = self.registries.setdefault((proc, op['registry']), {})
                    mch = MChain(self.mtasks(vi, op.get('pm', True)), reg, pm=op.get('pm', True))
                    new = ('chain', mch)
                else:
                    reg = {}
                    pm_ = op.get('pm', True)
                    # (member configs are renamed mc<j>_<name>: in name mode that is part of the root tasks' location)
                    members = [MChain(self.mtasks(vi % len(self.hist['variants']), pm_, None if pm_ else f'mc{j}_'), reg,
                                      pm=pm_) for j, vi in enumerate(op['variants'])]
                    new = ('multi', members)
            except model.ModelError as e:
                if err is None:
                    raise Violation('construction-should-fail:' + e.kind, dict(info))
                # the failed construction built SOME of its tasks before it gave up (which ones is an implementation
                # detail), and building a task sets its process-wide logger to DEBUG: thresholds set by the user in
                # this process are unknown from here on, until set again or reset by a successful construction
                for k_ in [k for k in self.levels if k[0] == proc]:
                    self.levels[k_] = None
                return {'kind': 'invalid'}
            if err is not None:
                raise Violation('construction-raised', dict(info, error=err))
            sl.append(new)
            # task sets and identity structure
            chains = [new[1]] if kind == 'chain' else new[1]
            for c_ in chains:
                for fn_ in c_.mt:
                    self.levels.pop((proc, fn_), None)   # Task.__init__ sets its logger to DEBUG
            descs = [obs['result']] if kind == 'chain' else obs['result']['members']
            for mch, d in zip(chains, descs):
                if set(d['tasks']) != set(mch.mt):
                    raise Violation('task-set', dict(info, got=sorted(d['tasks']), want=sorted(mch.mt)))
            # identity: same object <=> same model object, across all members (and across chains of one registry)
            seen = self._seen.setdefault(proc, {}) if op.get('registry') is not None else {}
            for mch, d in zip(chains, descs):
                for n, oid in d['tasks'].items():
                    mo = mch.by_name[n]
                    if oid in seen and seen[oid] is not mo:
                        raise Violation('different-computations-share-object', dict(info, task=n))
                    seen[oid] = mo
            inv = {}
            for oid, mo in seen.items():
                if id(mo) in inv and inv[id(mo)] != oid:
                    raise Violation('same-computation-not-shared', dict(info, task=mo.mt.fullname))
                inv[id(mo)] = oid
            return {'kind': 'built', 'chains': chains}
        if kind == 'restart':
            sl.clear()
            for k in [k for k in self.registries if k[0] == proc]:
                del self.registries[k]
            self._seen.pop(proc, None)
            return {'kind': 'restart'}
        if kind == 'fault':
            if obs.get('result'):
                self.armed[obs['result']] = op.get('n', 1)
            return {'kind': 'fault'}
        if kind == 'loglevel':
            if obs.get('result'):
                import logging
                self.levels[(proc, obs['result']['logger'])] = getattr(logging, op['level'])
            return {'kind': 'loglevel'}
        mch = self.chain_of(proc, op)
        if mch is None:
            return {'kind': 'skipped'}
        if kind == 'inspect':
            if log:
                raise Violation('inspection-ran-tasks', dict(info, what=op['what'], ran=[e[0] for e in log]))
            if err is not None:
                raise Violation('inspection-raised', dict(info, what=op['what'], error=err))
            res = obs['result']
            if op['what'] == 'has_data':
                for n, v in res.items():
                    o = mch.by_name[n]
                    want = o.persisting and self.loc(o) in self.store
                    if v != want:
                        raise Violation('has_data', dict(info, task=n, got=v, want=want))
            if op['what'] == 'is_forced':
                for n, v in res.items():
                    if v != mch.by_name[n].forced:
                        raise Violation('is_forced', dict(info, task=n, got=v, want=mch.by_name[n].forced))
            if op['what'] == 'data_path':
                for n, v in res.items():
                    if v != self.loc(mch.by_name[n]):
                        raise Violation('data_path', dict(info, task=n, got=v, want=self.loc(mch.by_name[n])))
            if op['what'] == 'tasks_df':
                for n, v in res['computed'].items():
                    o = mch.by_name[n]
                    want = None if not o.persisting else (self.loc(o) in self.store)
                    if v != want:
                        raise Violation('tasks_df-computed', dict(info, task=n, got=v, want=want))
            return {'kind': 'inspect'}
        if kind == 'value':
            n = self.task_of(mch, op['task'])
            o = mch.by_name[n]
            # C01's oracle proper: whatever is returned equals the reference evaluation of the requesting chain's own
            # configuration - checked first and independently of how the value was obtained
            for x in set(mch.by_name.values()):
                if x.mem is not None and x.mt.kind in HANDLE_KINDS and self.loc(x) not in self.store:
                    raise model.OutOfDomain('a stored result was deleted while another chain held a handle to it')
            if not self.salt and err is None and obs.get('result') is not None and o.mt.kind != 'gen_empty':
                if obs['result']['digest'] != o.mt.value:
                    raise Violation('value', dict(info, requested=n, got=obs['result']['digest'], want=o.mt.value,
                                                  how='reference evaluation of the requesting configuration'))
            predicted = []
            self.need(mch, o, predicted)
            served_without_run = not predicted
            # values that will be LOADED for this request, written by another chain object / process, while the task's
            # directory holds >= 2 distinct results (a wrong load is possible)
            cross = False
            todo, seen_o = [o], set()
            while todo:
                x = todo.pop()
                if id(x) in seen_o:
                    continue
                seen_o.add(id(x))
                if x.mem is None and x.persisting and self.loc(x) in self.store and not x.forced:
                    if self.writer.get(self.loc(x)) != id(mch):
                        d = self.loc(x).rsplit('/', 1)[0] + '/'
                        if len({l for l in self.store if l.startswith(d)}) >= 2:
                            cross = True
                elif x in predicted:
                    todo += mch.read_inputs(x)
            failed = self.consume_runs(mch, predicted, log, dict(info, requested=n))
            if failed is not None:
                if err != 'InjectedFault':
                    raise Violation('run-failure-not-propagated', dict(info, requested=n, error=err,
                                                                       result=obs.get('result')))
                return {'kind': 'value', 'failed': failed.mt.fullname, 'runs': len(log)}
            want = self.current(mch, o)  # (raises OutOfDomain for a handle whose result another chain deleted)
            if err is not None:
                raise Violation('value-raised', dict(info, requested=n, error=err))
            if o.mem is None:
                o.mem = want
            got = obs['result']['digest']
            if o.mt.kind == 'gen_empty':
                got = want if got is None else got  # an empty generated sequence carries no digest
            if got != want:
                raise Violation('value', dict(info, requested=n, got=got, want=want,
                                              how='computed' if predicted else 'memory-or-storage'))
            return {'kind': 'value', 'runs': len(log), 'served_without_run': served_without_run,
                    'cross_load_with_alternatives': cross, 'task': n}
        if kind == 'force_task':
            n = self.task_of(mch, op['task'])
            o = mch.by_name[n]
            if log:
                raise Violation('force-ran-tasks', dict(info, ran=[e[0] for e in log]))
            if err is not None:
                raise Violation('force-raised', dict(info, error=err))
            if op.get('reset_only'):
                o.mem, o.maybe = None, None
                return {'kind': 'reset', 'task': n}
            if op.get('delete') and o.persisting:
                self.store.pop(self.loc(o), None)
            o.forced, o.mem, o.maybe = True, None, None
            return {'kind': 'force', 'forced': [n]}
        if kind == 'force_chain':
            names = [self.task_of(mch, t) for t in op['tasks']]
            if op.get('as') == 'single':
                names = names[:1]
            sl_ = sl[op.get('slot', 0) % len(sl)]
            targets = sl_[1] if (sl_[0] == 'multi' and op.get('through_multi')) else [mch]
            all_forced = []
            nt_stats = []
            by_object = bool((obs.get('result') or {}).get('by_object'))
            given = [mch.by_name[n] for n in names] if by_object else None
            for ch in targets:
                if by_object:
                    # the very objects, under whatever names this member mounts them
                    members_objs = set(ch.by_name.values())
                    if any(o not in members_objs for o in given):
                        raise model.OutOfDomain('MultiChain.force with a task object that is not in every member')
                    roots_ = list(given)
                else:
                    if any(n not in ch.by_name for n in names):
                        # MultiChain.force with a task missing from a member chain: outside the generated domain
                        raise model.OutOfDomain('MultiChain.force with a task that is not in every member')
                    roots_ = [ch.by_name[n] for n in names]
                closure = set()
                for o in roots_:
                    closure.add(o)
                    closure |= ch.descendants(o)
                all_objs = set(ch.by_name.values())
                stats = {
                    'proper': 0 < len(closure) < len(all_objs),
                    'forced_stored': any(o.persisting and self.loc(o) in self.store for o in closure),
                    'unforced_upstream_stored': any(
                        u not in closure and u.persisting and self.loc(u) in self.store
                        for o in closure for u in ch.inputs(o)),
                }
                nt_stats.append(stats)
                for o in closure:
                    if op.get('delete') and o.persisting:
                        self.store.pop(self.loc(o), None)
                    o.forced, o.mem, o.maybe = True, None, None
                predicted = []
                if op.get('recompute'):
                    for o in closure:
                        self.need(ch, o, predicted)
                all_forced.append((ch, closure, predicted))
            if not op.get('recompute'):
                if log:
                    raise Violation('force-ran-tasks', dict(info, ran=[e[0] for e in log]))
            else:
                # the members are recomputed one after the other; shared objects run once
                merged, seen = [], set()
                for ch, closure, predicted in all_forced:
                    for o in predicted:
                        if id(o) not in seen:
                            seen.add(id(o))
                            merged.append(o)
                failed = self.consume_runs(all_forced[0][0] if len(all_forced) == 1 else _Union(all_forced), merged,
                                           log, dict(info, forced=names))
                if failed is not None:
                    if err != 'InjectedFault':
                        raise Violation('run-failure-not-propagated', dict(info, error=err))
                    return {'kind': 'force', 'failed': failed.mt.fullname}
            if err is not None:
                raise Violation('force-raised', dict(info, error=err))
            return {'kind': 'force', 'forced': names, 'closure': sum(len(c) for _, c, _ in all_forced),
                    'recompute': bool(op.get('recompute')), 'delete': bool(op.get('delete')),
                    'nontrivial': any(s['proper'] and s['forced_stored'] and s['unforced_upstream_stored']
                                      for s in nt_stats), 'members': len(targets)}
        raise ValueError(kind)

    def check_flags(self, proc, flags, info):
        sl = self.slots(proc)
        for s, fl in zip(sl, flags):
            chains = [s[1]] if s[0] == 'chain' else s[1]
            for mch, d in zip(chains, fl):
                for n, (forced, has) in d.items():
                    o = mch.by_name[n]
                    if forced != o.forced:
                        raise Violation('is_forced', dict(info, task=n, got=forced, want=o.forced))
                    want = o.persisting and self.loc(o) in self.store
                    if has != want:
                        raise Violation('has_data', dict(info, task=n, got=has, want=want))


class _Union:
    """Several member chains seen as one name space for consume_runs (MultiChain recompute)."""

    def __init__(self, triples):
        self.chains = [t[0] for t in triples]
        self.by_name = {}
        for ch in self.chains:
            for n, o in ch.by_name.items():
                self.by_name.setdefault(n, o)

    def owner(self, o):
        for ch in self.chains:
            if any(o is x for x in ch.by_name.values()):
                return ch
        return self.chains[0]

    def inputs(self, o):
        return self.owner(o).inputs(o)

    def read_inputs(self, o):
        return self.owner(o).read_inputs(o)


# ---- fresh-interpreter sessions ----------------------------------------------------------------------------------

def session_main():
    """Child side: python -m tcv.history <request.json>  -> prints one JSON line with the observations."""
    req = json.load(open(sys.argv[1]))
    hyp.silence_library_logging()
    hist = req['hist']
    RT.reset()
    RT.salt_seq = bool(hist.get('salt'))
    if hist.get('records'):
        from tcv import records
        RT.hooks.append(records.hook)
        RT.gen_messages = True
    RT.seq = req.get('seq0', 0)
    for slug, n in req.get('armed', {}).items():
        RT.fail[slug] = n
    RT.special.update(req.get('special', {}))
    build.load_program(hist['program'])
    ex = Executor(hist, req['data'], req['cfg_root'])
    out = []
    for op in req['ops']:
        obs = ex.do(op)
        if req.get('flags'):
            obs['flags'] = ex.flags()
        out.append(obs)
    sys.__stdout__.write('\n' + json.dumps({'obs': out, 'seq': RT.seq, 'armed': dict(RT.fail), 'special': dict(RT.special)}) + '\n')
    sys.__stdout__.flush()
    os._exit(0)


if __name__ == '__main__':
    session_main()
