"""Shared evaluation of (base case, rewritten case) pairs for C02 and C03."""
from pathlib import Path

from tcv import build, engine, hyp, model
from tcv.hyp import Violation
from tcv.runtime import RT, digest_of


def compare(pair, rec, want_equal_only=False, want_changed_only=False):
    base, case2, prefix = pair['base'], pair['rewritten'], pair['prefix']
    info = lambda: {'labels': pair['labels'], 'base': engine.describe(base), 'rewritten': engine.describe(case2)}  # noqa
    w1 = engine.World(base)
    with w1:
        cfg2 = w1.root / 'cfg2'
        loaded2 = None
        try:
            try:
                m1 = w1.model()
                build.write_files(case2, cfg2)
                m2 = model.build_tasks(case2, cfg2)
            except model.ModelError as e:
                rec.exclude('model-invalid:' + e.kind)
                return None
            loaded2 = build.load_program(case2['program'])
            try:
                with hyp.quiet_output():
                    c1 = w1.chain()
                    c2 = build.make_config(case2, w1.data, cfg2).chain()
            except Exception as e:
                raise Violation('construction-raised', dict(info(), error=repr(e)[:300]))
            mapping = {}
            for n in m1:
                n2 = f'{prefix}::{n}' if prefix else n
                if n2 in m2:
                    mapping[n] = n2
            if not mapping:
                rec.exclude('no-corresponding-tasks')
                return None
            for n in mapping:
                if n not in c1.tasks or mapping[n] not in c2.tasks:
                    raise Violation('task-set', dict(info(), task=n))
            nontrivial_task = False
            n_equal = n_changed = 0
            max_dist = 0
            for n, n2 in mapping.items():
                t1, t2 = c1.tasks[n], c2.tasks[n2]
                k1, k2 = t1.name_for_persistence, t2.name_for_persistence
                p1 = None if t1.data_path is None else str(Path(t1.data_path).relative_to(w1.data))
                p2 = None if t2.data_path is None else str(Path(t2.data_path).relative_to(w1.data))
                same_d = m1[n].descriptor_id == m2[n2].descriptor_id
                if same_d:
                    n_equal += 1
                    if k1 != k2 or p1 != p2:
                        raise Violation('same-computation-different-location', dict(
                            info(), task=n, rewritten_task=n2, key=k1, rewritten_key=k2,
                            params=t1.params.repr, rewritten_params=t2.params.repr))
                else:
                    n_changed += 1
                    if k1 == k2 or (p1 is not None and p1 == p2):
                        raise Violation('different-computations-same-location', dict(
                            info(), task=n, rewritten_task=n2, key=k1, descriptor=repr(m1[n].descriptor)[:300],
                            rewritten_descriptor=repr(m2[n2].descriptor)[:300], params=t1.params.repr,
                            rewritten_params=t2.params.repr))
                pers = [p for p in m1[n].spec['params'] if not p.get('ignore')]
                if (pers or any(i['present'] for i in m1[n].inputs)) and any(
                        isinstance(m1[n].params[p['name']], (list, dict, model.Obj)) for p in pers):
                    nontrivial_task = True
            # within one chain too: tasks of one class with different descriptors never share a location
            for chain_, m_ in ((c1, m1), (c2, m2)):
                seen = {}
                for n, mt in m_.items():
                    key = (mt.slug, chain_.tasks[n].name_for_persistence)
                    if key in seen and seen[key][1] != mt.descriptor_id:
                        raise Violation('different-computations-same-location', dict(
                            info(), task=n, other=seen[key][0], key=key[1], within='one chain'))
                    seen.setdefault(key, (n, mt.descriptor_id))
            shared_checked = False
            all_same = n_changed == 0 and base.get('global_vars') == case2.get('global_vars')
            if want_equal_only and all_same:
                # sharing consequence: results computed through the original chain are loaded by the rewritten one
                engine.check_values(base, c1, m1, list(mapping))
                before = len(RT.log)
                for n, n2 in mapping.items():
                    t2 = c2.tasks[n2]
                    if m2[n2].kind == 'memory':
                        continue
                    if not t2.has_data:
                        raise Violation('result-not-shared', dict(info(), task=n2))
                    try:
                        with hyp.quiet_output():
                            v = t2.value
                    except Exception as e:
                        raise Violation('shared-result-load-raised', dict(info(), task=n2, error=repr(e)[:200]))
                    if digest_of(v) != m1[n].value:  # exactly what the original chain stored
                        raise Violation('shared-result-wrong-value', dict(info(), task=n2))
                ran = [r for r in RT.log[before:] if m2.get(r[0]) is None or m2[r[0]].kind != 'memory']
                if ran:
                    raise Violation('shared-result-recomputed', dict(info(), ran=[r[0] for r in ran]))
                shared_checked = True
            return {'structure_changed': True, 'nontrivial_task': nontrivial_task, 'shared_checked': shared_checked,
                    'n_equal': n_equal, 'n_changed': n_changed, 'm1': m1, 'm2': m2, 'mapping': mapping}
        finally:
            if loaded2 is not None and loaded2.pkg != w1.loaded.pkg:
                loaded2.unload()
