"""C05 — A result is visible only when complete (failure and crash atomicity)."""
import copy
import itertools
import os
import shutil
from pathlib import Path

from hypothesis import strategies as st

from tcv import build, crash, engine, gen, hyp, model
from tcv.hyp import Finding, Violation
from tcv.runtime import RT, InjectedFault, InjectedInterrupt, digest_of

LEVEL = 'fault_enumeration'
RULE = (
    'For every storable data kind (JSON, numpy, pandas, eager and lazy generated sequences, list of arrays, DirData, '
    'ContinuesData) a two-task pipeline A -> B with a generated parameter value is run in two scenarios: first '
    'computation, and forced recomputation over an existing result. CRASHES: the request is executed once under an '
    'audit hook that sees every file-system-mutating event below the data directory (open for writing, mkdir, rename, '
    'remove, rmdir, truncate, symlink; the events of shutil.move / rmtree individually) and snapshots the directory '
    'BEFORE each event: snapshot k is the state left by a process killed immediately before operation k. For every file '
    'opened for writing, torn states are synthesised from that snapshot plus a prefix of the bytes finally written '
    '(ALL prefix lengths for files <= 256 bytes, otherwise 0, 1, every line end, the npy header area, 16 evenly spaced '
    'cuts and len-1). ALL crash states of a scenario are enumerated, not sampled. RAISED FAULTS: run raises before '
    'producing anything, after writing part of a work directory, a generator body raises after one item, run returns a '
    'mistyped value, run returns an unserializable value. Oracle, on a fresh chain per state: for A and its dependant B '
    'has_data is either False - then value recomputes (exactly one run of A) and equals the reference value - or True - '
    'then value loads with zero runs and equals the reference value; no exception either way; afterwards has_data is '
    '(for every rename additionally the state right after it with nothing else flushed) '
    'True and a second fresh chain loads the same value. After a raised fault additionally: requesting again in the '
    'SAME chain recovers; a failed DirData work directory is set aside as <key>_error and <key> is absent; a '
    'ContinuesData work directory and its content survive for the next run and <key> appears only after finished(). '
    'Non-trivial = a crash state that differs from both the initial and the final store listing, or a raised fault '
    'that fired.'
)
ASSUMPTIONS = [
    'process death, not power loss: files are written sequentially and what was written before the crash point is on '
    'disk; reordered / unsynced writes are not modelled',
    'h5py I/O is invisible to audit hooks: H5Data is covered only through the ContinuesData directory protocol',
    'crash states are checked by new Chain objects in the same process',
]

KINDS = ['dict', 'list', 'numpy', 'frame', 'generator', 'lazy', 'list_numpy', 'dir', 'continues', 'figure']
RAISED = ['raise-pre', 'raise-mid', 'gen-mid', 'mistyped', 'unserializable', 'interrupt-pre', 'interrupt-mid']


def arm(fault):
    """Arm one raised fault for the next run of g:a.  interrupt-* raise a KeyboardInterrupt subclass (what Ctrl-C or a
    notebook's kernel interrupt raises inside run): a failure of run that is not an `Exception`."""
    if fault == 'raise-pre':
        RT.fail['g:a'] = 1
    elif fault == 'interrupt-pre':
        RT.fail['g:a'] = -1
    else:
        RT.special['g:a'] = {'raise-mid': 'mid', 'interrupt-mid': 'imid'}.get(fault, fault)



def program(kind):
    a = {'cls': 'Qaa', 'name': 'a', 'derive_name': False, 'group': 'g', 'base': 'Task', 'abstract': False, 'slug': 'g:a',
         'params': [{'name': 'x', 'cfg': None, 'ignore': False, 'dpdv': False, 'dtype': None}], 'inputs': [],
         'kind': kind, 'style': 'args'}
    b = {'cls': 'Qab', 'name': 'b', 'derive_name': False, 'group': None, 'base': 'Task', 'abstract': False, 'slug': 'b',
         'params': [], 'inputs': [{'form': 'class', 'mod': 0, 'task': 0, 'rel': '', 'optional': False, 'via_param': False}],
         'kind': 'dict', 'style': 'args'}
    return {'modules': [{'name': 'alpha', 'sub': None, 'deps': [], 'tasks': [a, b], 'objects': True}]}


def make_case(kind, x):
    prog = program(kind)
    files = [{'name': 'cfg', 'fmt': 'json', 'node': {'module': 0, 'tasks_how': 'wild', 'values': {'x': x}, 'uses': [],
                                                     'changed': []}}]
    return {'program': prog, 'files': files, 'root': 0, 'context': None, 'global_vars': None}


def listing(d):
    return sorted(str(p.relative_to(d)) for p in Path(d).rglob('*'))


class Probe:
    """Checks one store state with fresh chains."""

    def __init__(self, world, mt, info):
        self.w, self.mt, self.info = world, mt, info

    def chain(self, data):
        with hyp.quiet_output():
            return build.make_config(self.w.case, data, self.w.cfgdir).chain()

    def check_state(self, data, label):
        info = dict(self.info, state=label, listing=listing(data)[:20])
        RT.log.clear()
        RT.fail.clear()
        RT.special.clear()
        ch = self.chain(data)
        a, b = ch['g:a'], ch['b']
        try:
            with hyp.quiet_output():
                had = bool(a.has_data)
        except Exception as e:
            raise Violation('has_data-raised', dict(info, error=repr(e)[:300]))
        for t, name in ((a, 'g:a'), (b, 'b')):
            before = len(RT.log)
            try:
                with hyp.quiet_output():
                    v = t.value
                    got = digest_of(v)
            except Exception as e:
                raise Violation('visible-but-unreadable' if (name == 'g:a' and had) else 'recovery-raised',
                                dict(info, task=name, had_data=had, error=repr(e)[:300]))
            runs_a = [e for e in RT.log[before:] if e[4] == 'g:a']
            if got != self.mt[name].value:
                raise Violation('partial-or-wrong-value-visible' if (name == 'g:a' and had) else 'wrong-value-after-recovery',
                                dict(info, task=name, had_data=had, got=got, want=self.mt[name].value))
            if name == 'g:a':
                if had and runs_a:
                    raise Violation('visible-result-was-recomputed', dict(info))
                if not had and len(runs_a) != 1:
                    raise Violation('missing-result-not-recomputed-once', dict(info, runs=len(runs_a)))
        with hyp.quiet_output():
            if not a.has_data:
                raise Violation('no-result-after-recovery', info)
        RT.log.clear()
        ch2 = self.chain(data)
        try:
            with hyp.quiet_output():
                if digest_of(ch2['g:a'].value) != self.mt['g:a'].value or digest_of(ch2['b'].value) != self.mt['b'].value:
                    raise Violation('second-chain-loads-other-value', info)
        except Violation:
            raise
        except Exception as e:
            raise Violation('second-chain-raised', dict(info, error=repr(e)[:300]))
        if [e for e in RT.log if e[4] == 'g:a']:
            raise Violation('second-chain-recomputed', info)
        if self.mt['g:a'].kind in ('dir', 'list_numpy', 'continues'):
            # ... and the state stays sound under ANOTHER forced recomputation (directory results are published by
            # renaming directories around: whatever an interrupted publication left behind must not get in the way)
            RT.log.clear()
            ch3 = self.chain(data)
            try:
                with hyp.quiet_output():
                    ch3.force(['g:a'])
                    ok = digest_of(ch3['b'].value) == self.mt['b'].value and digest_of(ch3['g:a'].value) == self.mt['g:a'].value
                    ch4 = self.chain(data)
                    ok = ok and digest_of(ch4['g:a'].value) == self.mt['g:a'].value
            except Exception as e:
                raise Violation('forced-recomputation-after-recovery-raised', dict(info, error=repr(e)[:300]))
            if not ok:
                raise Violation('forced-recomputation-after-recovery-wrong-value', info)
            extra = [p for p in listing(data) if p.startswith('g/a/') and '/' in p[4:]
                     and p[4:].split('/')[0] == self.mt['g:a'].key and p[4:].split('/')[1].startswith(self.mt['g:a'].key)]
            if extra:
                raise Violation('published-directory-contains-a-work-directory', dict(info, nested=extra[:4]))
        return had


def eval_crash(case_spec, rec):
    kind, scenario, x = case_spec['kind'], case_spec['scenario'], case_spec['x']
    case = make_case(kind, x)
    with engine.World(case) as w:
        mt = w.model()
        info = {'kind': kind, 'scenario': scenario, 'x': x}
        data = w.root / 'live'
        data.mkdir()
        probe = Probe(w, mt, info)
        ch = probe.chain(data)
        if scenario == 'forced':
            with hyp.quiet_output():
                _ = ch['b'].value
            ch = probe.chain(data)
            target = ch['g:a'].force()
        else:
            target = ch['g:a']
        initial = listing(data)
        with crash.Recording(data, w.root / 'snaps') as recd:
            with hyp.quiet_output():
                _ = target.value
        final = listing(data)
        n_states = 0
        work = w.root / 'state'
        for label, builder in crash.crash_states(recd, data, prefix_policy=case_spec.get('prefixes', 'marks')):
            builder(str(work))
            ls = listing(work)
            inside = ls != initial and ls != final
            try:
                probe.check_state(work, label)
            except Violation as v:
                site = f'{kind}|{scenario}|{label["before"]}' + ('|torn' if label['torn'] else '')
                v.clause = v.clause + '@' + site
                if isinstance(v.detail, dict):
                    v.detail['site'] = site
                rec.evaluations += 1
                rec.fail_now(dict(case_spec, state=label), v, kind='crash')
                continue
            n_states += 1
            rec.case(dict(case_spec, state=label), nontrivial=inside or label['torn'] is not None,
                     classes=[f'{kind}|{scenario}|{label["before"]}' + ('|torn' if label['torn'] else '')],
                     key=hyp.digest([kind, scenario, x, label]),
                     sample={'kind': kind, 'scenario': scenario, 'x': x, 'state': label, 'events': [
                         (e['kind'], crash._short(e['path'], data)) for e in recd.events]})
            shutil.rmtree(work, ignore_errors=True)
        rec.mark_exhaustive(f'crash-points:{kind}:{scenario}', n_states, True)


def eval_raised(case_spec, rec):
    kind, scenario, fault, x = case_spec['kind'], case_spec['scenario'], case_spec['fault'], case_spec['x']
    case = make_case(kind, x)
    with engine.World(case) as w:
        mt = w.model()
        info = {'kind': kind, 'scenario': scenario, 'fault': fault, 'x': x}
        data = w.root / 'live'
        data.mkdir()
        probe = Probe(w, mt, info)
        ch = probe.chain(data)
        if scenario == 'forced':
            with hyp.quiet_output():
                _ = ch['b'].value
            ch = probe.chain(data)
            ch.force(['g:a'])  # g:a and its dependant b: requesting b then recomputes g:a over its stored result
        a = ch['g:a']
        arm(fault)
        fired = None
        try:
            with hyp.quiet_output():
                _ = ch['b'].value
        except (Exception, InjectedInterrupt) as e:
            fired = e
        if fired is None:
            # the fault does not apply to this kind (e.g. gen-mid for a dict): nothing to check
            rec.exclude('fault-not-applicable:' + fault + ':' + kind)
            return
        site = f'{kind}|{scenario}|{fault}'
        try:
            key = mt['g:a'].key
            adir = data / 'g' / 'a'
            if kind == 'dir' and fault in ('raise-pre', 'raise-mid', 'mistyped', 'interrupt-pre', 'interrupt-mid'):
                if not (adir / f'{key}_error').exists():
                    raise Violation('failed-work-directory-not-set-aside', dict(info, listing=listing(data)))
                if scenario == 'first' and (adir / key).exists():
                    raise Violation('failed-directory-result-visible', dict(info, listing=listing(data)))
            if kind == 'continues' and fault in ('raise-mid', 'interrupt-mid'):
                if scenario == 'forced':
                    # somebody else reads the finished result of the earlier run meanwhile: the work directory of
                    # the interrupted recomputation is none of a reader's business
                    with hyp.quiet_output():
                        seen = listing(probe.chain(data)['g:a'].value)
                    if not seen:
                        raise Violation('finished-resumable-result-unreadable-meanwhile', dict(info, listing=listing(data)))
                if not (adir / f'{key}_tmp' / 'v.txt').exists():
                    raise Violation('resumable-work-directory-lost', dict(info, listing=listing(data)))
                if scenario == 'first' and (adir / key).exists():
                    raise Violation('unfinished-resumable-result-visible', dict(info, listing=listing(data)))
            # a second failure of the same kind right away: the error of run must propagate again (not some other
            # error from the clean-up of the first failure), and a later request still recovers
            if fault in ('raise-pre', 'raise-mid', 'gen-mid', 'interrupt-pre', 'interrupt-mid'):
                arm(fault)
                second = None
                try:
                    with hyp.quiet_output():
                        _ = a.value
                except (Exception, InjectedInterrupt) as e:
                    second = e
                if not isinstance(second, (InjectedFault, InjectedInterrupt)):
                    raise Violation('second-failure-did-not-propagate-the-run-error', dict(info, error=repr(second)[:300]))
            # same chain: requesting again recovers
            RT.fail.clear()
            RT.special.clear()
            try:
                with hyp.quiet_output():
                    got = digest_of(a.value)
                    gotb = digest_of(ch['b'].value)
            except Exception as e:
                raise Violation('retry-in-same-chain-raised', dict(info, error=repr(e)[:300]))
            if got != mt['g:a'].value or gotb != mt['b'].value:
                raise Violation('retry-in-same-chain-wrong-value', dict(info, got=got, want=mt['g:a'].value))
            if kind == 'continues' and fault in ('raise-mid', 'interrupt-mid'):
                prog = (adir / key / 'progress')
                if not prog.exists() or prog.read_text() != 'resumed':
                    raise Violation('resumable-run-did-not-see-its-work-directory', dict(info))
            # new chain right after the fault (before any retry): replay the scenario on a copy
        except Violation as v:
            v.clause = v.clause + '@' + site
            raise
        # a NEW chain after the fault, without retry in the old one
        with engine.World(case) as w2:
            data2 = w2.root / 'live'
            data2.mkdir()
            p2 = Probe(w2, mt, info)
            ch = p2.chain(data2)
            if scenario == 'forced':
                with hyp.quiet_output():
                    _ = ch['b'].value
                ch = p2.chain(data2)
                ch.force(['g:a'])
            arm(fault)
            try:
                with hyp.quiet_output():
                    _ = ch['b'].value
            except (Exception, InjectedInterrupt):
                pass
            try:
                p2.check_state(data2, {'after': fault})
            except Violation as v:
                v.clause = v.clause + '@' + site
                raise
        rec.case(case_spec, nontrivial=True, classes=[site], sample=info)


# ---- known findings (root causes, identified by data class x event x scenario) ---------------------------------

def _site_matcher(prefixes, clauses):
    def match(case, v):
        d = v.detail if isinstance(v.detail, dict) else {}
        site = d.get('site') or v.clause.split('@')[-1]
        base = v.clause.split('@')[0]
        return base in clauses and any(site.startswith(p) for p in prefixes)
    return match


FINDINGS = {}


def plan(tier):
    q = tier == 'quick'
    shards = []
    for kind in KINDS:
        shards.append({'kind': 'crash', 'data_kind': kind, 'values': (1 if kind in ('list_numpy', 'figure') else 2) if q else 40,
                       'prefixes': 'marks' if q else 'all'})
    shards.append({'kind': 'raised', 'examples': 1})
    return shards


XS = st.one_of(st.integers(-5, 5), st.sampled_from(['v', '', [1, 2], {'k': [None, 'é']}, 'x' * 300, list(range(60))]))


def run_shard(shard, seed, tier, rec):
    hyp.silence_library_logging()
    if shard['kind'] == 'crash':
        # generated parameter values (they change keys and payload sizes); every crash state of each is enumerated
        from hypothesis import find  # noqa: F401
        import random
        vals = []

        def body(x):
            vals.append(x)
        hyp.run_given(rec, XS, body, seed, shard['values'], kind='values', shrink=False)
        seen = []
        for x in vals:
            if x in seen:
                continue
            seen.append(x)
        for x in seen[:shard['values']]:
            for scenario in ('first', 'forced'):
                spec = {'crash': True, 'kind': shard['data_kind'], 'scenario': scenario, 'x': x,
                        'prefixes': shard['prefixes']}
                try:
                    eval_crash(spec, rec)
                except hyp.Inconclusive as e:
                    rec.inconclusive.append(str(e))
    else:
        for kind, scenario, fault in itertools.product(KINDS, ('first', 'forced'), RAISED):
            spec = {'raised': True, 'kind': kind, 'scenario': scenario, 'fault': fault, 'x': 3}
            try:
                eval_raised(spec, rec)
            except Violation as v:
                rec.evaluations += 1
                rec.fail_now(spec, v, kind='raised')


def replay(doc, rec):
    hyp.silence_library_logging()
    spec = doc['case']
    if spec.get('raised'):
        eval_raised(spec, rec)
    else:
        tmp = hyp.Recorder('C05')
        tmp.findings, tmp.open_ids = {}, set()
        eval_crash({k: v for k, v in spec.items() if k != 'state'}, tmp)
        want = spec.get('state')
        for f in tmp.failures:
            if want is None or f['case'].get('state') == want:
                raise Violation(f['clause'], f['detail'])
