"""C04 — Each computation runs at most once, and only on demand."""
from hypothesis import strategies as st

from tcv import gen, histgen, hyp, worker
from tcv.hyp import Violation

LEVEL = 'exploration'
RULE = (
    'Histories over one data directory WITHOUT forcing, failures or deletions: a generated program (all storable data '
    'kinds incl. in-memory tasks, pattern/optional inputs, namespaces) with 1-3 config variants that differ in '
    'parameter values / context / wiring, and 4-20 operations: chain constructions (any variant), MultiChain '
    'constructions, value requests on arbitrary tasks in arbitrary order, every inspection call (tasks_df, str, '
    '_repr_markdown_, has_data, data_path, run_info, log, create_readable_filenames, graph queries, is_forced), soft '
    'restarts (all objects dropped) and fresh-interpreter sessions (a pristine forked process building chains and '
    'requesting values on the same directory); one history in six runs in name mode (parameter_mode=False, one '
    'configuration, where the default readable-link name is the result\'s own file name). Oracle: store/evaluator reference model: after EVERY step the '
    'invocation-log increment equals the predicted set exactly (construction and inspection add nothing; a request adds '
    'exactly the pull-closure of missing results; a stored result is loaded without touching its upstream), every '
    'returned value equals the model\'s, and over the whole history every storage location is run at most once (an '
    'in-memory task once per task object). Non-trivial = the history has >= 1 request served with no run (memory or '
    'storage) and >= 1 request that ran >= 2 tasks; distinct by history digest.'
)
ASSUMPTIONS = [
    'other processes are forked pristine interpreters run sequentially; two processes racing to compute one task are '
    'outside the statement',
    'every generated run body reads all of its declared inputs',
    'the store/evaluator model (tcv/history.py) and the composition model (tcv/model.py) are the oracle',
]
RELEVANT = ['unexpected-run', 'expected-run-missing', 'construction-ran-tasks', 'inspection-ran-tasks',
            'ran-before-inputs-available', 'location-ran-twice', 'value', 'has_data', 'tasks_df-computed',
            'run-received-wrong-inputs-or-parameters']
KINDS = {'chain': 3, 'multichain': 1, 'value': 8, 'inspect': 4, 'restart': 1, 'session': 2}
ZY = {}


def eval_case(hist, rec):
    out = histgen.run_history(hist, zygote=ZY.get('z'), relevant=RELEVANT)
    sm = out.model
    if getattr(out, 'stopped', None):
        rec.exclude('stopped:' + out.stopped)
        return
    for loc, n in sm.runs_per_location.items():
        if n > 1:
            raise Violation('location-ran-twice', {'location': loc, 'runs': n, 'history': histgen.describe(hist)})
    for oid, n in sm.runs_per_memobj.items():
        if n > 1:
            raise Violation('location-ran-twice', {'in_memory_object_runs': n, 'history': histgen.describe(hist)})
    flat = []
    for s in out.steps:
        flat += s['steps'] if s.get('kind') == 'session' else [s]
    served = sum(1 for s in flat if s.get('kind') == 'value' and s.get('served_without_run'))
    multi = sum(1 for s in flat if s.get('kind') == 'value' and s.get('runs', 0) >= 2)
    cl = sorted({'op:' + o['op'] for o in hist['ops']})
    cl += sorted({'inspect:' + o['what'] for o in hist['ops'] if o['op'] == 'inspect'})
    if hist.get('name_mode'):
        cl.append('name-mode')
    if any(t.get('unread') for m in hist['program']['modules'] for t in m['tasks']):
        cl.append('body-skips-a-declared-input')
    if any(s.get('session') for s in flat):
        cl.append('cross-process')
    if served:
        cl.append('served-without-run')
    if multi:
        cl.append('ran>=2')
    rec.case(hist, nontrivial=bool(served and multi), classes=cl, sample=histgen.describe(hist))


def strategy():
    gen.UNREAD_INPUTS['on'] = True   # "only those upstream tasks whose results are needed": bodies that skip inputs
    return histgen.histories(KINDS, max_ops=20, gen_kw=dict(max_modules=3, max_tasks=3, kinds=gen.KINDS_ALL), name_mode=True)


def plan(tier):
    q = tier == 'quick'
    return [{'kind': 'history', 'examples': 150 if q else 6000} for _ in range(8 if q else 16)]


def run_shard(shard, seed, tier, rec):
    ZY['z'] = worker.Zygote()
    try:
        hyp.run_given(rec, strategy(), lambda h: eval_case(h, rec), seed, shard['examples'], kind='history',
                      shrink_budget=60)
    finally:
        ZY['z'].close()


def replay(doc, rec):
    ZY['z'] = worker.Zygote()
    try:
        eval_case(doc['case'], rec)
    finally:
        ZY['z'].close()
