"""C20 — Migration to parameter mode carries every result over unchanged."""
import copy
import shutil
from pathlib import Path

from hypothesis import strategies as st

from tcv import build, engine, gen, hyp, model
from tcv.eq import tree_digest
from tcv.hyp import Violation
from tcv.runtime import RT, digest_of

LEVEL = 'exploration'
RULE = (
    'File-based engine cases (JSON / YAML config trees with `uses`, namespaces, global_vars, multi-config files whose '
    'root is given as main part, as "file#part" or via part=), data kinds covering files (json, npy, pd, jsonl) and '
    'directories (DirData, list of arrays) plus in-memory tasks; a name-mode chain computes every task on a source '
    'directory, then a generated subset of the stored results is deleted so that ANY subset S of persisting tasks "had a '
    'result"; then a generated sequence of 1-3 migrate_to_parameter_mode calls (dry=True / dry=False, at least one real). '
    'Oracle: after a dry call no file exists under the target; after a real call a parameter-mode chain on the target '
    'has has_data(t) <=> t in S for every persisting task, loads values equal to the originals, runs nothing for them; '
    'the source tree is unmodified (every file, symlink and non-empty directory identical by path and content hash); a '
    'second real call leaves the target files identical and does not raise. Non-trivial = S is neither empty nor '
    'everything and contains >= 1 file result and >= 1 directory result.'
)
ASSUMPTIONS = [
    'name mode is used within its documented limits: no context, no config file mounted twice, unique config names',
    'empty directories are not counted (inspecting a DirData task creates an empty <name>_tmp directory)',
]
KINDS = ['dict', 'list', 'str', 'numpy', 'frame', 'generator', 'lazy', 'dir', 'list_numpy', 'memory', 'dir', 'list_numpy',
         'gen_empty']   # (a generated sequence without rows: a 0-byte result file)
DIR_KINDS = ('dir', 'list_numpy')


@st.composite
def cases(draw):
    case = draw(gen.cases(max_modules=3, max_tasks=3, kinds=KINDS, allow_context=False))
    if draw(st.integers(0, 2)) == 0:
        case = draw(gen.with_multi_config(case))
    case['subset'] = draw(st.lists(st.booleans(), min_size=12, max_size=12))
    calls = draw(st.lists(st.booleans(), min_size=1, max_size=3))   # True = dry
    if all(calls):
        calls.append(False)
    case['calls'] = calls
    case['damage'] = draw(st.sampled_from([0, 0, 1, 2, 3]))
    # an explicit config name (Config(dir, file, name=...)): in name mode the results are stored under it
    case['root_name'] = draw(st.sampled_from([None, None, None, 'exp_a', 'run.b']))
    if case.get('root_part'):
        case['root_name'] = None
    return case


def eval_case(case, rec):
    from taskchain.utils.migration import migrate_to_parameter_mode
    try:
        insts = model.compose(case)
    except model.ModelError as e:
        rec.exclude('model-invalid:' + e.kind)
        return
    if len({(i.fi, i.part) for i in insts}) < len(insts):
        rec.exclude('config-mounted-twice (name mode)')
        return
    with engine.World(case) as w:
        src, tgt = w.root / 'source', w.root / 'target'
        src.mkdir()
        try:
            mt_name = w.model(parameter_mode=False, root_name=case.get('root_name'))
            mt_par = w.model(parameter_mode=True)
        except model.ModelError as e:
            rec.exclude('model-invalid:' + e.kind)
            return
        info = {'case': engine.describe(case), 'calls': case['calls']}
        # directory results contain a relative symlink to a file outside their own directory
        (src / 'shared.txt').write_text('shared payload')
        RT.dir_symlink = str(src / 'shared.txt')
        try:
            with hyp.quiet_output():
                old = build.make_config(case, src, w.cfgdir, root_name=case.get('root_name')).chain(parameter_mode=False)
                for n in mt_name:
                    _ = old.tasks[n].value
        except Exception as e:
            raise hyp.Inconclusive(f'name-mode chain could not be computed: {e!r}')
        persisting = sorted(n for n, t in mt_name.items() if t.kind != 'memory')
        # distinct storage locations in name mode: (slug, config name); deleting one deletes it for all its names
        S = set()
        groups = {}
        for n in persisting:
            groups.setdefault((mt_name[n].slug, mt_name[n].key), []).append(n)
        for gi, (key, names) in enumerate(sorted(groups.items())):
            if case['subset'][gi % len(case['subset'])]:
                S.update(names)
            else:
                with hyp.quiet_output():
                    old.tasks[names[0]].force(delete_data=True)
        del old
        before = tree_digest(src)
        target_after_first_real = None
        RT.log.clear()
        for ci, dry in enumerate(case['calls']):
            try:
                with hyp.quiet_output():
                    config = build.make_config(case, src, w.cfgdir, root_name=case.get('root_name'))
                    migrate_to_parameter_mode(config, tgt, dry=dry, verbose=bool(ci % 2))
            except Exception as e:
                raise Violation('migration-raised', dict(info, call=ci, dry=dry, error=repr(e)[:300]))
            if RT.log:
                raise Violation('migration-ran-tasks', dict(info, ran=[e[0] for e in RT.log]))
            files = {p: h for p, h in tree_digest(tgt).items() if h[0] != 'dir'} if tgt.exists() else {}
            if dry and target_after_first_real is None and files:
                raise Violation('dry-run-wrote-files', dict(info, call=ci, files=sorted(files)[:5]))
            if not dry:
                if target_after_first_real is None:
                    target_after_first_real = files
                elif files != target_after_first_real:
                    raise Violation('second-migration-changed-target', dict(info, call=ci))
            elif target_after_first_real is not None and files != target_after_first_real:
                raise Violation('dry-run-wrote-files', dict(info, call=ci))
            if tree_digest(src) != before:
                raise Violation('source-modified', dict(info, call=ci))
        # an out-of-sync target (e.g. a copy that was cut short): a DRY invocation may complain but changes nothing
        if case.get('damage') and target_after_first_real:
            victims = sorted({model.location(mt_par[n]) for n in S if mt_par[n].kind not in DIR_KINDS + ('frame', 'memory')})
            victims = [p for p in victims if (tgt / p).is_file() and (tgt / p).stat().st_size > 1]
            if victims:
                vp = tgt / victims[case['damage'] % len(victims)]
                original = vp.read_bytes()
                vp.write_bytes(original[:len(original) // 2])
                damaged = tree_digest(tgt)
                try:
                    with hyp.quiet_output():
                        config = build.make_config(case, src, w.cfgdir, root_name=case.get('root_name'))
                        migrate_to_parameter_mode(config, tgt, dry=True, verbose=False)
                except (Exception, AssertionError):
                    pass  # the library's size assertion: an accepted answer to an out-of-sync target
                now = tree_digest(tgt)
                if {p: h for p, h in now.items() if h[0] != 'dir'} != {p: h for p, h in damaged.items() if h[0] != 'dir'}:
                    raise Violation('dry-run-modified-target', dict(info, damaged=str(vp.relative_to(tgt))))
                if tree_digest(src) != before:
                    raise Violation('source-modified', dict(info, call='dry after damage'))
                vp.write_bytes(original)
                RT.log.clear()
                case['_damaged'] = True
        # the parameter-mode chain on the target
        try:
            with hyp.quiet_output():
                new = build.make_config(case, tgt, w.cfgdir).chain()
        except Exception as e:
            raise Violation('target-chain-raised', dict(info, error=repr(e)[:300]))
        for n in persisting:
            with hyp.quiet_output():
                has = bool(new.tasks[n].has_data)
            # results are shared by location: a task has data iff some name-mode task of the same parameter-mode
            # location had one
            loc = (mt_par[n].slug, mt_par[n].key)
            want = any(m in S for m in persisting if (mt_par[m].slug, mt_par[m].key) == loc)
            if has != want:
                raise Violation('has_data-after-migration', dict(info, task=n, got=has, want=want, had_result=sorted(S)))
        RT.log.clear()
        for n in sorted(S):
            try:
                with hyp.quiet_output():
                    v = new.tasks[n].value
            except Exception as e:
                raise Violation('migrated-value-raised', dict(info, task=n, error=repr(e)[:300]))
            if mt_par[n].kind != 'gen_empty' and digest_of(v) != mt_name[n].value:
                raise Violation('migrated-value-differs', dict(info, task=n, got=digest_of(v), want=mt_name[n].value))
            if mt_par[n].kind == 'dir':
                # every file of the directory result is readable and equal to the original (links are followed)
                sdir = src / model.location(mt_name[n])
                tdir = Path(v)
                for p_ in sorted(sdir.rglob('*')):
                    if p_.is_dir():
                        continue
                    q = tdir / p_.relative_to(sdir)
                    try:
                        same = q.read_bytes() == p_.read_bytes()
                    except OSError as e:
                        raise Violation('migrated-directory-content-unreadable', dict(info, task=n, file=str(q.name),
                                                                                      error=repr(e)[:200]))
                    if not same:
                        raise Violation('migrated-directory-content-differs', dict(info, task=n, file=str(q.name)))
        if RT.log:
            raise Violation('migrated-result-recomputed', dict(info, ran=[e[0] for e in RT.log]))
        if tree_digest(src) != before:
            raise Violation('source-modified', dict(info, call='after loading'))
        kinds_S = {mt_name[n].kind for n in S}
        nt = 0 < len(S) < len(persisting) and any(k in DIR_KINDS for k in kinds_S) and any(
            k not in DIR_KINDS for k in kinds_S)
        cl = ['calls:' + ''.join('D' if d else 'R' for d in case['calls'])]
        if case.get('root_part'):
            cl.append('root:file#part' if case.get('root_part_style') != 'arg' else 'root:part-argument')
        elif any(f.get('parts') for f in case['files']):
            cl.append('multi-config')
        if case.pop('_damaged', False):
            cl.append('dry-call-on-out-of-sync-target')
        if case.get('root_name'):
            cl.append('explicit-config-name')
        if case.get('global_vars'):
            cl.append('global_vars')
        if any(t.ns for t in mt_name.values()):
            cl.append('namespaces')
        rec.case(case, nontrivial=nt, classes=cl, sample=engine.describe(case))


def plan(tier):
    q = tier == 'quick'
    return [{'kind': 'migration', 'examples': 300 if q else 4000} for _ in range(8 if q else 16)]


def run_shard(shard, seed, tier, rec):
    hyp.run_given(rec, cases(), lambda c: eval_case(c, rec), seed, shard['examples'], kind='migration')


def replay(doc, rec):
    eval_case(doc['case'], rec)
