"""C12 — The storage scheme is stable, so earlier results stay addressable."""
import hashlib
import json
import sys
from pathlib import Path

from hypothesis import strategies as st

from tcv import build, engine, gen, hyp, model
from tcv.hyp import Violation

ROOT = Path(__file__).resolve().parent.parent.parent

LEVEL = 'exploration'
RULE = (
    'Differential check against a frozen, independent implementation of the release-1.4.0 scheme (tcv/model.py: value '
    'text, name=value joined by ### sorted by name with elision rules, inputs relname=key sorted and joined by ###, '
    '"<params>$$$<inputs>", sha256 hex[:32]; name mode: config name[#part]) and layout '
    '<data dir>/<group levels>/<task>/<key>.<ext> with <key>.run_info.yaml and <key>.log beside it. Engine cases '
    'emphasise what enters a location: groups (none, single, multi-level, ModuleTask, DoubleModuleTask), namespaces, '
    'all data classes (json, npy, pd, jsonl eager/lazy, list-of-arrays dir, DirData dir, in-memory), parameter values '
    'over the full JSON-like domain INCLUDING quotes, separators (###, $$$, =) and escapes, Path, parameter objects '
    '(ParameterObject, AutoParameterObject with ignored and default-elided args), placeholders, optional inputs, both '
    'modes, multi-config parts. After computing every task the files on disk must be exactly the predicted ones. The '
    'frozen implementation is anchored by 14 goldens taken from the repository\'s own example notebook (rendered by '
    'an earlier release): golden text -> key, library on a harness-built replica of the example pipeline -> golden '
    'keys, and library on the real example configs -> golden keys. Non-trivial = a task with >= 1 persisted container '
    'or object parameter and >= 1 input, in a group or namespace.'
)
ASSUMPTIONS = [
    'agreement of the frozen scheme with release 1.4.0 rests on the goldens (strings, ints, None, lists, defaults, input '
    'chaining, ModuleTask groups, in-memory tasks) and on reading the pinned source for forms the goldens lack '
    '(mappings, objects, namespaces); no 1.4.0 wheel is available offline',
]


@st.composite
def cases(draw):
    gen.VALUE_STRATEGY['current'] = gen.param_values_full
    gen.PLAIN_OBJECTS['on'] = True   # also parameter objects of a plain class (their key text is their definition)
    case = draw(gen.cases(max_modules=3, max_tasks=3, kinds=gen.KINDS_ALL, patterns=True))
    if draw(st.integers(0, 3)) == 0:
        case = draw(gen.with_multi_config(case))
    try:
        insts = model.compose(case)
        multi = len({(i.fi, i.part) for i in insts}) < len(insts)
    except model.ModelError:
        multi = True
    case['name_mode'] = (not multi) and not case.get('context') and draw(st.integers(0, 4)) == 0
    return case


def expected_files(mt, base):
    """Set of relative paths (files) that must exist after every task has been computed."""
    out = set()
    for t in mt.values():
        d = '/'.join(t.slug.split(':'))
        ext = model.EXT[t.kind]
        # <key>.run_info.yaml and <key>.log, also for extension-less results (directories) under a dotted key (name mode:
        # config 'exp.v2'): the pinned commit took the stem of the path there, so that 'exp.v2' and 'exp' shared
        # their records (C18 found it; repaired in /repo, see known-findings.txt)
        stem = t.key
        out.add(f'{d}/{stem}.run_info.yaml')
        out.add(f'{d}/{stem}.log')
        if t.kind == 'memory':
            continue
        if ext:
            out.add(f'{d}/{t.key}.{ext}')
        elif False:
            pass
        elif t.kind == 'list_numpy':
            for k_ in range(12):   # (the engine's list-of-arrays results have twelve elements)
                out.add(f'{d}/{t.key}/{k_}.npy')
        else:
            out.add(f'{d}/{t.key}/v.txt')
            out.add(f'{d}/{t.key}/sub/w.bin')
    return out


def eval_case(case, rec):
    pm = not case.get('name_mode')
    with engine.World(case) as w:
        chain, mt, lerr, merr = engine.build_both(w, parameter_mode=pm)
        if merr is not None:
            rec.exclude('model-invalid:' + merr.kind)
            return
        if lerr is not None:
            raise Violation('construction-raised', {'error': repr(lerr)[:400], 'case': engine.describe(case)})
        engine.check_task_set(case, chain, mt)
        engine.check_keys(case, chain, mt, w.data)
        engine.check_values(case, chain, mt)
        got = {str(p.relative_to(w.data)) for p in w.data.rglob('*') if p.is_file() or p.is_symlink()}
        want = expected_files(mt, w.data)
        if got != want:
            raise Violation('files-on-disk', {'missing': sorted(want - got)[:6], 'unexpected': sorted(got - want)[:6],
                                              'case': engine.describe(case)})
        # run info / log are found where the scheme says
        for n, t in mt.items():
            lt = chain.tasks[n]
            ri = lt.run_info
            if not isinstance(ri, dict) or ri.get('task', {}).get('name') != t.slug:
                raise Violation('run-info-not-at-location', {'task': n, 'run_info': repr(ri)[:200],
                                                             'case': engine.describe(case)})
        nt = False
        cl = ['mode:' + ('parameter' if pm else 'name')]
        for t in mt.values():
            cl.append('kind:' + t.kind)
            pers = [p for p in t.spec['params'] if not p.get('ignore')]
            cont = any(isinstance(t.params[p['name']], (list, dict, model.Obj)) for p in pers)
            if cont and any(i['present'] for i in t.inputs) and (t.ns or ':' in t.slug):
                nt = True
            if ':' in t.slug:
                cl.append('grouped')
            if t.ns:
                cl.append('namespaced')
        rec.case(case, nontrivial=nt, classes=sorted(set(cl)), sample=engine.describe(case))


# ---- goldens -----------------------------------------------------------------------------------------

def load_goldens():
    doc = json.loads((ROOT / 'goldens' / 'example_keys.json').read_text())
    return [g for g in doc['goldens'] if g['in_notebook']]


REPLICA_MOVIES = '''
import taskchain as _tc
from taskchain import Parameter as _P
from pathlib import Path as _Path


class AllMovies(_tc.ModuleTask):
    class Meta:
        input_tasks = []
        parameters = [_P('source_file', dtype=_Path)]

    def run(self, source_file) -> dict:
        return {}


class Movies(_tc.ModuleTask):
    class Meta:
        input_tasks = [AllMovies]
        parameters = [_P('min_vote_count', default=None, dtype=int), _P('from_year', default=None, dtype=int),
                      _P('to_year', default=None, dtype=int)]

    def run(self, all_movies) -> dict:
        return {}


class Movie_names(_tc.ModuleTask):
    class Meta:
        input_tasks = [Movies]

    def run(self) -> dict:
        return {}


class DurationHistogram(_tc.ModuleTask):
    class Meta:
        input_tasks = [Movies]
        parameters = [_P('max_duration_in_histogram', default=4 * 60)]

    def run(self, movies, max_duration_in_histogram) -> dict:
        return {}


class YearHistogram(_tc.ModuleTask):
    class Meta:
        input_tasks = [Movies]

    def run(self, movies) -> dict:
        return {}


class ExtractFeatureTask(_tc.ModuleTask):
    class Meta:
        abstract = True
        input_tasks = [Movies]
        parameters = []

    def run(self, movies) -> dict:
        return {}


class Directors(ExtractFeatureTask):
    class Meta:
        input_tasks = ExtractFeatureTask.meta.input_tasks


class Genres(ExtractFeatureTask):
    class Meta:
        input_tasks = ExtractFeatureTask.meta.input_tasks


class Countries(ExtractFeatureTask):
    class Meta:
        input_tasks = ExtractFeatureTask.meta.input_tasks


class Actors(ExtractFeatureTask):
    class Meta:
        input_tasks = ExtractFeatureTask.meta.input_tasks
'''

REPLICA_FEATURES = '''
import taskchain as _tc
from taskchain import Parameter as _P, InMemoryData as _IMD
from tcvgold.movies import Movies, Genres, Countries, Actors, Directors


class SelectedDirectors(_tc.ModuleTask):
    class Meta:
        input_tasks = [Directors, Movies]
        parameters = [_P('director_minimal_movie_count'), _P('director_minimal_movie_rating', default=7)]

    def run(self, directors, movies, director_minimal_movie_count, director_minimal_movie_rating) -> dict:
        return {}


class SelectedActors(_tc.ModuleTask):
    class Meta:
        input_tasks = [Actors, Movies]
        parameters = [_P('actor_minimal_movie_count', default=20)]

    def run(self, actors, movies, actor_minimal_movie_count) -> dict:
        return {}


class AllFeatures(_tc.ModuleTask):
    class Meta:
        input_tasks = [Movies, Genres, Countries, Actors, Directors, SelectedActors, SelectedDirectors]

    def run(self, movies, selected_actors, selected_directors, genres, countries, actors, directors) -> dict:
        return {}


class FeatureNames(_tc.ModuleTask):
    class Meta:
        input_tasks = [AllFeatures]
        parameters = [_P('feature_types', dtype=list)]

    def run(self, all_features, feature_types) -> dict:
        return {}


class Features(_tc.ModuleTask):
    class Meta:
        input_tasks = [AllFeatures, FeatureNames]
        data_class = _IMD

    def run(self, all_features, feature_names) -> dict:
        return {}
'''


def eval_goldens(rec):
    import taskchain
    goldens = load_goldens()
    # (a) the frozen implementation vs the goldens
    for g in goldens:
        k = hashlib.sha256(g['text'].encode()).hexdigest()[:32]
        if k != g['key']:
            raise Violation('golden-self-check', g)
    ft = ['year', 'duration', 'genre', 'country', 'actor', 'director']
    if model.frozen_value_repr(ft) not in [g['text'] for g in goldens if g['task'] == 'features:feature_names'][0]:
        raise Violation('model-disagrees-with-golden', {'repr': model.frozen_value_repr(ft)})
    if model.frozen_value_repr(model.Sub('/d/x', '{DATA_DIR}/x')) != "'{DATA_DIR}/x'" or model.frozen_value_repr(None) != 'None':
        raise Violation('model-disagrees-with-golden', {'what': 'placeholder / None'})
    rec.count(len(goldens), classes=['golden:text->key'])
    # (b) the library on a replica of the example pipeline
    tmp = hyp.scratch_dir('tcv-c12g-')
    names = []
    try:
        for n, src, pkg in (('tcvgold', None, True), ('tcvgold.movies', REPLICA_MOVIES, False),
                            ('tcvgold.features', REPLICA_FEATURES, False)):
            build._register(n, src, is_pkg=pkg)
            names.append(n)
        cfg = tmp / 'cfg'
        (cfg / 'movies').mkdir(parents=True)
        (cfg / 'features').mkdir(parents=True)
        (cfg / 'movies' / 'imdb.filtered.yaml').write_text(
            'tasks:\n  - tcvgold.movies.*\n\nsource_file: "{DATA_DIR}/source_data/IMDB_movies.csv"\n\n'
            'from_year: 1945\nmin_vote_count: 1000\n')
        (cfg / 'features' / 'all.yaml').write_text(
            'tasks: tcvgold.features.*\nuses: "{CONFIGS_DIR}/movies/imdb.filtered.yaml"\n\n'
            'director_minimal_movie_count: 5\nactor_minimal_movie_count: 21\n\nfeature_types:\n  - year\n  - duration\n'
            '  - genre\n  - country\n  - actor\n  - director\n')
        for data_dir in ('/some/where', str(tmp / 'elsewhere')):
            chain = taskchain.Config(tmp / 'data', cfg / 'features' / 'all.yaml',
                                     global_vars={'DATA_DIR': data_dir, 'CONFIGS_DIR': str(cfg)}).chain()
            _compare_goldens(chain, goldens, 'replica', tmp / 'data')
        rec.count(2 * len(goldens), classes=['golden:replica-chain'])
    finally:
        for n in names:
            sys.modules.pop(n, None)
        hyp.drop_scratch(tmp)
    # (c) the library on the real example project
    ex = Path('/repo/example')
    try:
        sys.path.insert(0, str(ex / 'src'))
        import movie_ratings.tasks.features  # noqa: F401
        ok = True
    except Exception as e:
        ok = False
        rec.exclude('real-example-not-importable:' + type(e).__name__)
    if ok:
        tmp = hyp.scratch_dir('tcv-c12e-')
        try:
            gv = {'DATA_DIR': str(ex / 'data'), 'CONFIGS_DIR': str(ex / 'configs')}
            chain = taskchain.Config(tmp, ex / 'configs' / 'features' / 'all.yaml', global_vars=gv).chain()
            _compare_goldens(chain, goldens, 'real-example', tmp)
            rec.count(len(goldens), classes=['golden:real-example-chain'])
        finally:
            hyp.drop_scratch(tmp)
    for m in [k for k in sys.modules if k.startswith('movie_ratings')]:
        sys.modules.pop(m, None)
    if str(ex / 'src') in sys.path:
        sys.path.remove(str(ex / 'src'))
    for g in goldens:
        rec.nontrivial.add(hyp.digest(g['text']))
    rec.samples.append({'class_key': 'golden', 'case': goldens[1]})


def _compare_goldens(chain, goldens, where, base):
    for g in goldens:
        t = chain[g['task']]
        if t.name_for_persistence != g['key']:
            raise Violation('golden-key-mismatch', {'where': where, 'task': g['task'], 'got': t.name_for_persistence,
                                                    'want': g['key'], 'text': g['text'],
                                                    'lib_params': t.params.repr})
        if t.data_path is not None:
            rel = str(Path(t.data_path).relative_to(base))
            want = '/'.join(g['task'].split(':')) + '/' + g['key']
            if not rel.startswith(want + '.'):
                raise Violation('golden-layout-mismatch', {'where': where, 'task': g['task'], 'got': rel, 'want': want})


def plan(tier):
    q = tier == 'quick'
    return [{'kind': 'goldens'}] + [{'kind': 'scheme', 'examples': 220 if q else 8000} for _ in range(8 if q else 15)]


def run_shard(shard, seed, tier, rec):
    hyp.silence_library_logging()
    if shard['kind'] == 'goldens':
        try:
            eval_goldens(rec)
        except Violation as v:
            rec.fail_now({'goldens': True}, v, kind='goldens')
    else:
        hyp.run_given(rec, cases(), lambda c: eval_case(c, rec), seed, shard['examples'], kind='scheme')


def replay(doc, rec):
    hyp.silence_library_logging()
    if doc['case'].get('goldens'):
        eval_goldens(rec)
    else:
        eval_case(doc['case'], rec)
