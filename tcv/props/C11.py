"""C11 — Placeholders are substituted everywhere, once, and nothing else changes."""
import copy
import json
import types
from pathlib import Path

from hypothesis import strategies as st

from tcv import hyp
from tcv.eq import canon, strict_eq
from tcv.hyp import Violation

LEVEL = 'exploration'
RULE = (
    'Pure level: JSON-like structures (depth <= 6) whose strings are assembled from fragments: literal text, defined '
    'placeholders, undefined placeholders, "{}", lone braces, nested/unbalanced forms ({{A}}, {x{A}, {A}}), adjacent '
    'and repeated placeholders, replacement values that themselves look like placeholders; global_vars as dict and as '
    'object (str/int/Path values). Oracle: hand-written scanner replacing every innermost {NAME} with a defined NAME by '
    'str(value) in one left-to-right pass; every string compared, non-strings type-strict equal, shape unchanged, second '
    'application is a no-op, the result behaves as str (==, hash, len, slicing, +, format, Path, json, dict key) and '
    'repr / copy / deepcopy keep the placeholder form. Config level: the same through Config(data=...), `uses` paths to '
    'real files, context values and context `uses`, args/kwargs of object definitions, Parameter.value vs '
    'Parameter.repr, storage key equal for two different global_vars assignments and for deepcopy(config). '
    'Non-trivial = a string at depth >= 1 containing >= 1 defined placeholder and >= 1 of {undefined placeholder, brace '
    'noise, repeated/adjacent placeholder}.'
)
ASSUMPTIONS = [
    'placeholder NAMEs of OBJECT global_vars are identifiers not starting with "_" (objects expose dunder attributes); '
    'mapping global_vars also define names with hyphens, blanks, dots, colons and non-ASCII letters',
    'placeholders are generated in string VALUES only, not in mapping keys (the statement says "every string ... of a '
    'config\'s data"; whether keys count is ambiguous, the library never substitutes keys)',
    'JSON-like containers only (lists / str-keyed dicts); tuples and sets cannot be substituted in place',
]

NAMES = ['A', 'B', 'DIR', 'x1', 'Long_Name']
# names only a MAPPING can define (any string is a key): hyphens, blanks, dots, colons, non-ASCII
MAP_NAMES = ['data-dir', 'my var', 'model.v2', 'k:1', 'é']
UNDEF = ['U', 'AA', 'a', 'undefined', 'A B', 'A.B', '0', 'values', 'items', 'keys', 'get', 'copy']
LITERALS = ['', 'x', '/', ' ', 'ab/c', '$', '\\', "'", '"', 'é', ':', '%s', '{0}'.replace('{0}', 'q')]
NOISE = ['{', '}', '{}', '{{', '}}', '{ }']

fragment = st.one_of(
    st.sampled_from(LITERALS),
    st.sampled_from(NAMES).map(lambda n: '{' + n + '}'),
    st.sampled_from(NAMES).map(lambda n: '{' + n + '}'),
    st.sampled_from(UNDEF).map(lambda n: '{' + n + '}'),
    st.sampled_from(MAP_NAMES).map(lambda n: '{' + n + '}'),
    st.sampled_from(NOISE),
    st.sampled_from(NAMES).map(lambda n: '{{' + n + '}}'),
    st.sampled_from(NAMES).map(lambda n: '{x{' + n + '}'),
    st.sampled_from(NAMES).map(lambda n: '{' + n + '}}'),
    st.sampled_from(NAMES).map(lambda n: '{' + n + '}{' + n + '}'),
)
strings = st.lists(fragment, min_size=0, max_size=5).map(''.join)
leaves = st.one_of(strings, strings, st.none(), st.booleans(), st.integers(-3, 3), st.floats(allow_nan=False, width=16))
structures = st.recursive(leaves, lambda ch: st.one_of(st.lists(ch, max_size=3),
                                                       st.dictionaries(st.sampled_from(['k', 'p', 'q', 'a b']), ch, max_size=3)),
                          max_leaves=10)
gv_values = st.one_of(st.sampled_from(['v', '', '/data', '{B}', '{A}', '{U}', 'a b', '}', '{', "it's"]),
                      st.integers(-2, 99), st.sampled_from(['/p/q', 'rel']).map(lambda s: {'__path__': s}))


@st.composite
def gvars(draw):
    as_object = draw(st.booleans())
    names = draw(st.lists(st.sampled_from(NAMES if as_object else NAMES + MAP_NAMES), min_size=1, max_size=4, unique=True))
    return {'as_object': as_object, 'vals': {n: draw(gv_values) for n in names},
            'object_flavour': draw(st.sampled_from(['namespace', 'class']))}


def make_gv(spec, as_object=None):
    vals = {k: (Path(v['__path__']) if isinstance(v, dict) else v) for k, v in spec['vals'].items()}
    if spec['as_object'] if as_object is None else as_object:
        flavour = spec.get('object_flavour', 'namespace')
        ident = {k: v for k, v in vals.items() if k.isidentifier()}
        if flavour == 'namespace' or len(ident) != len(vals):
            return types.SimpleNamespace(**vals), vals
        # "object attributes" are not only instance attributes: constants defined on the class, inherited from a base
        # class, or provided by a property are attributes of the object just the same (a settings class / module)
        names = sorted(ident)
        base = type('SettingsBase', (), {n: ident[n] for n in names[0::3]})
        props = {n: property(lambda self, _v=ident[n]: _v) for n in names[1::3]}
        cls = type('Settings', (base,), props)
        obj = cls()
        for n in names[2::3]:
            setattr(obj, n, ident[n])
        return obj, vals
    return dict(vals), vals


def ref_sub(s, vals):
    out, i, n = [], 0, len(s)
    changed = False
    while i < n:
        if s[i] == '{':
            j = i + 1
            while j < n and s[j] not in '{}':
                j += 1
            if j < n and s[j] == '}':
                name = s[i + 1:j]
                if name in vals:
                    out.append(str(vals[name]))
                    changed = True
                else:
                    out.append(s[i:j + 1])
                i = j + 1
                continue
            out.append(s[i:j])
            i = j
            continue
        out.append(s[i])
        i += 1
    return ''.join(out), changed


def ref_struct(o, vals):
    if isinstance(o, str):
        return ref_sub(o, vals)[0]
    if isinstance(o, list):
        return [ref_struct(x, vals) for x in o]
    if isinstance(o, dict):
        return {k: ref_struct(v, vals) for k, v in o.items()}
    return o


def walk(o, path=()):
    if isinstance(o, list):
        for i, x in enumerate(o):
            yield from walk(x, path + (i,))
    elif isinstance(o, dict):
        for k, x in o.items():
            yield from walk(x, path + (k,))
    else:
        yield path, o


def get_at(o, path):
    for p in path:
        o = o[p]
    return o


def classify(struct, vals):
    nt = False
    cl = set()
    for path, leaf in walk(struct):
        if not isinstance(leaf, str):
            continue
        defined = sum(leaf.count('{' + n + '}') for n in vals)
        undefined = any(('{' + u + '}') in leaf for u in UNDEF) or any(('{' + n + '}') in leaf for n in NAMES + MAP_NAMES if n not in vals)
        out, _ = ref_sub(leaf, vals)
        stripped = leaf
        for n in NAMES + MAP_NAMES + UNDEF:
            stripped = stripped.replace('{' + n + '}', '')
        noise = '{' in stripped or '}' in stripped
        if defined:
            cl.add('defined')
        if undefined:
            cl.add('undefined')
        if noise:
            cl.add('brace-noise')
        if defined >= 2:
            cl.add('repeated')
        if defined and len(path) >= 1 and (undefined or noise or defined >= 2):
            nt = True
    return nt, cl


def check_str_behaviour(s, ref, original, where):
    """`s` is what the library produced for original text `original`; `ref` is the expected plain string."""
    info = {'where': where, 'original': original, 'expected': ref, 'got': str(s), 'got_type': type(s).__name__}
    if not isinstance(s, str):
        raise Violation('substituted-not-a-str', info)
    if str(s) != ref or s != ref or not (ref == s):
        raise Violation('wrong-substitution', info)
    if hash(s) != hash(ref) or len(s) != len(ref) or s[1:3] != ref[1:3] or s + 'z' != ref + 'z' or 'z' + s != 'z' + ref:
        raise Violation('substituted-string-misbehaves', info)
    if {s: 1}.get(ref) != 1 or {ref: 1}.get(s) != 1:
        raise Violation('substituted-string-misbehaves', dict(info, what='dict key'))
    if '%s' % s != ref or f'{s}' != ref or '{}'.format(s) != ref:
        raise Violation('substituted-string-misbehaves', dict(info, what='formatting'))
    if json.dumps(s) != json.dumps(ref):
        raise Violation('substituted-string-misbehaves', dict(info, what='json'))
    if '\x00' not in ref and str(Path(s)) != str(Path(ref)):
        raise Violation('substituted-string-misbehaves', dict(info, what='Path'))
    if ref != original:
        # representation for persistence keeps the placeholder form, also after copying
        want = repr(original)
        for label, obj in (('repr', s), ('copy', copy.copy(s)), ('deepcopy', copy.deepcopy(s)),
                           ('deepcopy-in-list', copy.deepcopy([s])[0]), ('copy-of-copy', copy.copy(copy.deepcopy(s)))):
            if repr(obj) != want:
                raise Violation('repr-lost-placeholder-form' if label == 'repr' else 'copy-lost-placeholder-form',
                                dict(info, via=label, repr=repr(obj), want=want))
            if str(obj) != ref:
                raise Violation('copy-changed-value', dict(info, via=label, value=str(obj)))


def eval_pure(case, rec):
    from taskchain.utils.data import search_and_replace_placeholders
    struct = case['struct']
    gv, vals = make_gv(case['gv'])
    expected = ref_struct(struct, vals)
    work = copy.deepcopy(struct)
    try:
        if isinstance(work, str):
            result = search_and_replace_placeholders(work, gv)
        else:
            result = search_and_replace_placeholders(work, gv)
            if isinstance(work, (list, dict)) and result is not work:
                raise Violation('container-not-substituted-in-place', {'case': case})
    except Violation:
        raise
    except Exception as e:
        raise Violation('substitution-raised', {'case': case, 'error': repr(e)})
    _compare(struct, expected, result, 'pure', case)
    # second application changes nothing
    snap = canon(result) if not isinstance(result, str) else str(result)
    reprs = [repr(l) for _, l in walk(result) if isinstance(l, str)]
    again = search_and_replace_placeholders(result, gv)
    snap2 = canon(again) if not isinstance(again, str) else str(again)
    if snap != snap2 or reprs != [repr(l) for _, l in walk(again) if isinstance(l, str)]:
        raise Violation('second-application-changed-something', {'case': case, 'after_first': repr(result)[:300],
                                                                 'after_second': repr(again)[:300]})
    nt, cl = classify(struct if not isinstance(struct, str) else [struct], vals)
    if isinstance(struct, str):
        nt = False
    cl.add('gv:object' if case['gv']['as_object'] else 'gv:dict')
    rec.case(case, nontrivial=nt, classes=sorted(cl) + ['pure'])


def _compare(original, expected, result, where, case):
    if isinstance(original, str):
        check_str_behaviour(result, expected, original, where)
        return
    paths_o = [p for p, _ in walk(original)]
    paths_r = [p for p, _ in walk(result)]
    if paths_o != paths_r:
        raise Violation('container-shape-changed', {'where': where, 'case': case, 'result': repr(result)[:300]})
    for path, leaf in walk(original):
        got = get_at(result, path)
        want = get_at(expected, path)
        if isinstance(leaf, str):
            check_str_behaviour(got, want, leaf, f'{where}@{list(path)}')
        elif not strict_eq(got, leaf):
            raise Violation('non-string-changed', {'where': where, 'path': list(path), 'before': repr(leaf),
                                                   'after': repr(got)})


# ---- Config level -------------------------------------------------------------------------------

def _classes():
    """Task / parameter-object classes, created once per process."""
    global _CL
    try:
        return _CL
    except NameError:
        pass
    from taskchain import Task, Parameter
    from taskchain.parameter import AutoParameterObject

    class C11Obj(AutoParameterObject):
        def __init__(self, first, k=None):
            self.first = first
            self.k = k

    class C11Root(Task):
        class Meta:
            name = 'c11_root'
            parameters = [Parameter('x'), Parameter('obj', default=None), Parameter('ctxv', default=None)]

        def run(self, x, obj, ctxv) -> dict:
            return {'x': x, 'obj': None if obj is None else [obj.first, obj.k], 'ctxv': ctxv}

    class C11Used(Task):
        class Meta:
            name = 'c11_used'
            parameters = [Parameter('y'), Parameter('yns', default=None)]

        def run(self, y, yns) -> dict:
            return {'y': y}

    import sys
    mod = sys.modules[__name__]
    mod.C11Obj, mod.C11Root, mod.C11Used = C11Obj, C11Root, C11Used
    C11Obj.__module__ = C11Root.__module__ = C11Used.__module__ = __name__
    _CL = (C11Obj, C11Root, C11Used)
    return _CL


def eval_config(case, rec):
    import taskchain
    _classes()
    tmp = hyp.scratch_dir('tcv-c11-')
    try:
        keys = []
        # ONE caller-owned context dict, passed to both configs (two environments): its per-namespace part holds strings
        # with placeholders inside containers
        yns = case.get('yns', case['y'])
        uses_form = '{DIR}/ctx2.json' if len(json.dumps(case['x'])) % 2 else ['{DIR}/ctx2.json']   # a string or a LIST
        context = {'uses': uses_form, 'for_namespaces': {'n': {'yns': copy.deepcopy(yns)}}}
        context_before = copy.deepcopy(context)
        for which in ('gv', 'gv2'):
            spec = copy.deepcopy(case[which])
            # the SAME files (one directory) serve both environments: only the defined values differ
            cfgdir = tmp / 'cfg'
            cfgdir.mkdir(parents=True, exist_ok=True)
            spec['vals']['DIR'] = str(cfgdir)  # DIR is always defined: it locates the used files
            gv, vals = make_gv(spec)
            x, y, ctxv, a0, kv = case['x'], case['y'], case['ctxv'], case['arg'], case['kwarg']
            if which == 'gv':   # written ONCE: the second environment reads the very same, untouched files
                (cfgdir / 'used.json').write_text(json.dumps({'tasks': [f'{__name__}.C11Used'], 'y': y}))
                (cfgdir / 'ctx2.json').write_text(json.dumps({'ctxv': ctxv}))
            data = {
                'tasks': [f'{__name__}.C11Root'],
                'uses': ['{DIR}/used.json as n'],
                'x': copy.deepcopy(x),
                'obj': {'class': f'{__name__}.C11Obj', 'args': [copy.deepcopy(a0)], 'kwargs': {'k': copy.deepcopy(kv)}},
            }
            try:
                config = taskchain.Config(tmp / which / 'data', name='root', data=data, global_vars=gv, context=context)
                chain = config.chain()
            except Exception as e:
                raise Violation('config-construction-raised', {'case': case, 'which': which, 'error': repr(e)})
            root, used = chain['c11_root'], chain['n::c11_used']
            if not strict_eq(context, context_before):
                raise Violation('caller-context-changed-by-substitution', {'case': case, 'which': which,
                                                                           'now': repr(context)[:300]})
            _compare(yns, ref_struct(yns, vals), used.params['yns'], 'per-namespace context value task.params[yns]', case)
            _compare(x, ref_struct(x, vals), config.data['x'], 'config.data[x]', case)
            _compare(x, ref_struct(x, vals), root.params['x'], 'task.params[x]', case)
            _compare(y, ref_struct(y, vals), used.params['y'], 'used-config task.params[y]', case)
            _compare(ctxv, ref_struct(ctxv, vals), root.params['ctxv'], 'context value task.params[ctxv]', case)
            obj = root.params['obj']
            _compare(a0, ref_struct(a0, vals), obj.first, 'object definition args[0]', case)
            _compare(kv, ref_struct(kv, vals), obj.k, 'object definition kwargs[k]', case)
            want_value = {'x': ref_struct(x, vals), 'obj': [ref_struct(a0, vals), ref_struct(kv, vals)],
                          'ctxv': ref_struct(ctxv, vals)}
            try:
                with hyp.quiet_output():
                    v = root.value
                    v2 = used.value
            except Exception as e:
                raise Violation('run-raised', {'case': case, 'error': repr(e)})
            if not strict_eq(_plain(v), want_value) or not strict_eq(_plain(v2), {'y': ref_struct(y, vals)}):
                raise Violation('task-received-wrong-value', {'case': case, 'value': repr(v)[:300],
                                                              'want': repr(want_value)[:300]})
            k = (root.name_for_persistence, used.name_for_persistence, root.params.repr, used.params.repr)
            keys.append(k)
            # the config copied: same keys
            try:
                c2 = copy.deepcopy(config)
                ch2 = c2.chain()
                k2 = (ch2['c11_root'].name_for_persistence, ch2['n::c11_used'].name_for_persistence,
                      ch2['c11_root'].params.repr, ch2['n::c11_used'].params.repr)
            except Exception as e:
                raise Violation('deepcopy-config-raised', {'case': case, 'error': repr(e)})
            if k2 != k:
                raise Violation('copy-lost-placeholder-form', {'case': case, 'via': 'deepcopy(config).chain()',
                                                               'original': k, 'copied': k2})
            _compare(x, ref_struct(x, vals), ch2['c11_root'].params['x'], 'deepcopy(config) task.params[x]', case)
        if keys[0] != keys[1]:
            raise Violation('key-depends-on-global-vars-values', {'case': case, 'keys': keys})
        allv = [case['x'], case['y'], case['ctxv'], case['arg'], case['kwarg']]
        _, vals = make_gv(case['gv'])
        vals['DIR'] = 'd'
        nt, cl = classify(allv, vals)
        rec.case(case, nontrivial=nt, classes=sorted(cl) + ['config-level'])
    finally:
        hyp.drop_scratch(tmp)


def _plain(v):
    return json.loads(json.dumps(v))


config_cases = st.fixed_dictionaries({
    'config': st.just(True), 'gv': gvars(), 'gv2': gvars(),
    'x': structures, 'y': structures, 'ctxv': structures, 'arg': structures, 'kwarg': leaves, 'yns': structures,
}).filter(lambda c: not _has_class_key(c))


def _has_class_key(c):
    return False


pure_cases = st.fixed_dictionaries({'struct': structures, 'gv': gvars()})


def plan(tier):
    q = tier == 'quick'
    shards = [{'kind': 'pure', 'examples': 4000 if q else 150000} for _ in range(8 if q else 12)]
    shards += [{'kind': 'config', 'examples': 150 if q else 6000} for _ in range(8 if q else 8)]
    return shards


def run_shard(shard, seed, tier, rec):
    hyp.silence_library_logging()
    if shard['kind'] == 'pure':
        hyp.run_given(rec, pure_cases, lambda c: eval_pure(c, rec), seed, shard['examples'], kind='pure')
    else:
        hyp.run_given(rec, config_cases, lambda c: eval_config(c, rec), seed, shard['examples'], kind='config')


def replay(doc, rec):
    hyp.silence_library_logging()
    case = doc['case']
    if case.get('config'):
        eval_config(case, rec)
    else:
        eval_pure(case, rec)
