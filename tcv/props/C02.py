"""C02 — Storage location depends only on what goes into the computation."""
import json
import os
import subprocess
import sys
from pathlib import Path

from hypothesis import strategies as st

from tcv import build, engine, gen, hyp, model, mutate, rewriting
from tcv.hyp import Violation

LEVEL = 'exploration'
RULE = (
    'Metamorphic: an engine case plus a composition of 1-3 COMPUTATION-PRESERVING rewritings: rename/move config files, '
    'mount the whole tree under a namespace path of depth 1-3, permute parameters in Meta / tasks lists / `uses` / '
    'mapping keys at every depth, JSON<->YAML, class list <-> wildcard, move files into a multi-config, add ignored '
    'parameters and default-valued dont-persist parameters, move a value from a config file to a global or '
    'per-namespace context entry, change global_vars values, add an absent optional input. Whether a rewriting '
    'preserves each task\'s computation is decided by the reference model\'s computation descriptor (not by key text). '
    'Oracle: for every pair of corresponding tasks with equal descriptors, name_for_persistence and the relative '
    'data_path are equal; and a result computed through the original chain is has_data and loads with zero runs through '
    'the rewritten chain. Separately the same case is built in SPAWNED interpreters with PYTHONHASHSEED in {0, 1, 2, '
    'random}: all keys equal. Non-trivial = the rewriting changed the configuration text/structure and the task has '
    '>= 1 persisted parameter or input with a container/object value among its persisted parameters.'
)
ASSUMPTIONS = [
    'descriptor equality is computed by the reference model; a rewriting whose result the model finds invalid is skipped',
    'user-written ParameterObject.repr() implementations are outside the statement; the generated ones are injective',
    'global_vars values differ between the two chains only in the placeholder-location check, not in the sharing check',
]


@st.composite
def cases(draw, ob_mappings=False):
    gen.OB_MAPPING_ARGS['on'] = ob_mappings
    gen.VALUE_STRATEGY['current'] = gen.param_values_cfgdir
    base = draw(gen.cases(max_modules=3, max_tasks=3, kinds=['dict', 'list', 'str', 'numpy', 'dir', 'generator']))
    kinds = ['perm_keys', 'perm_keys', 'fmt_swap', 'wrap_ns'] if ob_mappings else mutate.PRESERVING + ['spell_default'] * 3
    case2, prefix, labels = draw(mutate.rewrite(base, kinds, n_max=3))
    return {'base': base, 'rewritten': case2, 'prefix': prefix, 'labels': labels}


def eval_case(pair, rec):
    res = rewriting.compare(pair, rec, want_equal_only=True)
    if res is None:
        return
    cl = ['rw:' + l for l in sorted(set(pair['labels']))] + [f'composition={len(pair["labels"])}']
    nt = res['structure_changed'] and res['nontrivial_task']
    if res['shared_checked']:
        cl.append('sharing-checked')
    rec.case(pair, nontrivial=nt, classes=cl, sample={'labels': pair['labels'], 'prefix': pair['prefix'],
                                                      'base': engine.describe(pair['base']),
                                                      'rewritten_files': engine.describe(pair['rewritten'])['files']})


# ---- spawned interpreters, different hash seeds ----------------------------------------------------------

def eval_hashseed(case, rec):
    with engine.World(case) as w:
        chain, mt, lerr, merr = engine.build_both(w)
        if merr is not None or lerr is not None:
            rec.exclude('invalid-case')
            return
        here = {n: t.name_for_persistence for n, t in chain.tasks.items()}
        casefile = w.root / 'case.json'
        casefile.write_text(json.dumps(case))
        seeds = case.get('hashseeds', ['1', 'random'])
        for hs in seeds:
            env = dict(os.environ, PYTHONHASHSEED=hs, PYTHONPATH=os.pathsep.join(
                [str(Path(__file__).resolve().parent.parent.parent), os.environ.get('TCV_SRC') or '/repo/src']))
            r = subprocess.run([sys.executable, '-m', 'tcv.child', 'keys', str(casefile), str(w.cfgdir), str(w.data)],
                               env=env, capture_output=True, text=True, timeout=300)
            if r.returncode != 0:
                raise hyp.Inconclusive('child failed: ' + r.stderr[-300:])
            there = json.loads(r.stdout.strip().splitlines()[-1])
            if there != here:
                diff = {n: (here.get(n), there.get(n)) for n in set(here) | set(there) if here.get(n) != there.get(n)}
                raise Violation('key-depends-on-process-or-hash-seed', {'hashseed': hs, 'diff': diff,
                                                                        'case': engine.describe(case)})
        rec.case(case, nontrivial=True, classes=['hashseed:' + s for s in seeds] + ['spawned-interpreter'],
                 sample={'hashseeds': seeds, 'case': engine.describe(case)})


@st.composite
def hs_cases(draw, set_object=False):
    case = draw(gen.cases(max_modules=2, max_tasks=3))
    case['hashseeds'] = draw(st.sampled_from([['1', 'random'], ['2', '0'], ['random', '1']]))
    if set_object:
        # a parameter object that stores a set of strings (known finding apo-set-hashseed)
        t = case['program']['modules'][0]['tasks'][0]
        t['params'].append({'name': 'tagset', 'cfg': None, 'ignore': False, 'dpdv': False, 'dtype': None, 'object': 'Oc'})
        tags = draw(st.lists(st.sampled_from(['alpha', 'beta', 'gamma', 'delta', 'eps', 'zeta']), min_size=3, max_size=6,
                             unique=True))
        for f in case['files']:
            nd = f['node']
            if nd and nd['module'] == 0:
                nd['values']['tagset'] = {'__object__': 'Oc', 'args': [tags], 'kwargs': {}}
        case['set_object'] = True
        case['hashseeds'] = ['1', '2', '3']
    return case


# ---- known findings ----------------------------------------------------------------------------------------

def _has_mapping(v):
    if isinstance(v, dict):
        return ('__object__' not in v and len(v) >= 2) or any(_has_mapping(x) for x in v.values())
    if isinstance(v, list):
        return any(_has_mapping(x) for x in v)
    return False


def _apo_with_mapping(val):
    if isinstance(val, model.Obj):
        return val.cls == 'Ob' and _has_mapping(val.vals['k'])
    if isinstance(val, list):
        return any(_apo_with_mapping(x) for x in val)
    if isinstance(val, dict):
        return any(_apo_with_mapping(x) for x in val.values())
    return False


def _match_apo_mapping(pair, v):
    """The moved task has, in its upstream closure, a persisted AutoParameterObject argument holding a mapping."""
    if v.clause != 'same-computation-different-location' or 'base' not in pair:
        return False
    d = v.detail if isinstance(v.detail, dict) else {}
    mt = model.build_tasks(pair['base'], '<cfgdir>')
    todo, seen = [d.get('task')], set()
    while todo:
        n = todo.pop()
        if n in seen or n not in mt:
            continue
        seen.add(n)
        t = mt[n]
        for p in t.spec['params']:
            if not p.get('ignore') and _apo_with_mapping(t.params[p['name']]):
                return True
        todo += [i['target'] for i in t.inputs if i['present']]
    return False


def _repro_apo_mapping():
    from taskchain.parameter import AutoParameterObject

    class O(AutoParameterObject):
        def __init__(self, k):
            self.k = k
    return O({'a': 1, 'b': 2}).repr() != O({'b': 2, 'a': 1}).repr()


def _match_apo_set(case, v):
    return v.clause == 'key-depends-on-process-or-hash-seed' and bool(case.get('set_object'))


def _repro_apo_set():
    code = ('from taskchain.parameter import AutoParameterObject\n'
            'class O(AutoParameterObject):\n'
            '    def __init__(self, tags):\n'
            '        self.tags = set(tags)\n'
            "print(O(['alpha', 'beta', 'gamma', 'delta']).repr())\n")
    outs = set()
    for hs in ('1', '2', '3'):
        env = dict(os.environ, PYTHONHASHSEED=hs, PYTHONPATH=os.environ.get('TCV_SRC') or '/repo/src')
        r = subprocess.run([sys.executable, '-c', code], env=env, capture_output=True, text=True, timeout=120)
        outs.add(r.stdout.strip().splitlines()[-1] if r.stdout.strip() else r.stderr[-100:])
    return len(outs) > 1


FINDINGS = {
    'apo-mapping-order': hyp.Finding(
        'AutoParameterObject.repr prints arguments with repr(): a mapping argument prints in insertion order, so the '
        'storage key depends on the order of mapping keys in the config ({a: 1, b: 2} vs {b: 2, a: 1}); sorting would '
        'change existing 1.4.0 keys of unsorted mappings (C12)', _match_apo_mapping, _repro_apo_mapping),
    'apo-set-hashseed': hyp.Finding(
        'AutoParameterObject.repr prints a set attribute with repr(): a set of str prints in hash order, so the storage '
        'key depends on PYTHONHASHSEED / the process; sorting would change existing keys (e.g. {8, 1}) (C12)',
        _match_apo_set, _repro_apo_set),
}


def plan(tier):
    q = tier == 'quick'
    shards = [{'kind': 'rewrite', 'examples': 200 if q else 8000} for _ in range(8 if q else 14)]
    shards += [{'kind': 'rewrite', 'ob_mappings': True, 'examples': 150 if q else 4000} for _ in range(2)]
    shards += [{'kind': 'hashseed', 'examples': 3 if q else 80} for _ in range(2)]
    shards += [{'kind': 'hashseed', 'set_object': True, 'examples': 2 if q else 20}]
    return shards


def run_shard(shard, seed, tier, rec):
    if shard['kind'] == 'rewrite':
        hyp.run_given(rec, cases(bool(shard.get('ob_mappings'))), lambda c: eval_case(c, rec), seed, shard['examples'],
                      kind='rewrite')
    else:
        hyp.run_given(rec, hs_cases(bool(shard.get('set_object'))), lambda c: eval_hashseed(c, rec), seed,
                      shard['examples'], kind='hashseed', shrink=False)


def replay(doc, rec):
    if 'base' in doc['case']:
        eval_case(doc['case'], rec)
    else:
        eval_hashseed(doc['case'], rec)
