"""C17 — parallel_map equals map, whatever the scheduling; chunked splits exactly."""
import itertools

from hypothesis import strategies as st

from tcv import hyp
from tcv.hyp import Violation
from tcv.sched import EXC, Boom, Controller, Hang, out_of

LEVEL = 'exploration'
RULE = (
    'Cases = (function: utils.threading.parallel_map | utils.iter.parallel_map, n in 0..40 distinct elements as list '
    'or generator, threads 1..8, chunksize 1..12, sort flag, set of raising elements, completion priority, call form: '
    'progress bar on/off, sort / chunksize left at their defaults, total=, desc=, parallel_starmap). The mapped '
    'function blocks every call on an event; a controller waits until the in-flight set is maximal and releases the '
    'in-flight call with the best generated priority, so the completion order is a generated input. Exhaustive part: '
    'n in 1..5 in one chunk, threads 2..n+1, ALL n! priority orders, both functions, sort on/off. chunked: generated '
    'iterables (lists, generators, strings, ranges) x chunk sizes 1..50. Non-trivial = the observed completion order '
    'has an inversion inside some chunk w.r.t. submission order, or an exception fired, (chunked: >=2 chunks with a '
    'shorter last one); distinct by case digest.'
)
ASSUMPTIONS = [
    'completion order is controlled from inside the mapped function (threads of one process); scheduling of the '
    'asyncio loop itself is not controlled',
    'parallel_map is called from the main thread of the shard process, as users do',
    'a controller safety timer firing yields "inconclusive", never a violation',
]


HANGS = {'n': 0}
HANG_S = 20   # period of the harness alarm for a call that does not come back (see on_alarm)


def elems_for(n, none_at=None):
    xs = [(i * 37 + 11) % 1009 for i in range(n)]
    if none_at is not None and n:
        xs[none_at % n] = None  # "any iterable": None is an ordinary element
    return xs


def _call(case):
    from taskchain.utils import threading as tthr
    from taskchain.utils import iter as titer
    n = case['n']
    xs = elems_for(n, case.get('none_at'))
    form = case.get('form') or {}
    if form.get('default_chunksize'):
        case = dict(case, chunksize=1000)
    if form.get('default_sort'):
        case = dict(case, sort=True)
    chunksize = case['chunksize'] if case['fn'] == 'threading' else None
    ctl = Controller(xs, case['threads'], chunksize, case['priority'], case.get('raising', ()), exc=case.get('exc', 'Boom'),
                     returning_exc=case.get('ret_exc', ()))
    arg = (x for x in xs) if case.get('gen') else list(xs)
    if (case.get('form') or {}).get('nested_input') and case['fn'] == 'threading':
        # (utils.iter.parallel_map draws its input inside its running event loop, so it cannot be nested this way - a
        #  limit of that helper on the pinned tree, not asserted)
        # a pipeline: the input is a lazy generator whose own first step is a (small, uncontrolled) parallel_map
        def _staged(xs_=xs):
            inner = tthr.parallel_map(lambda v: v + 1, [1, 2, 3], threads=2, use_tqdm=False)
            if inner != [2, 3, 4]:
                raise RuntimeError(f'inner parallel_map returned {inner!r}')
            yield from xs_
        arg = _staged()
    result, error = None, None
    import asyncio
    import signal

    if HANGS['n'] >= 2 and case.get('raising') and case['threads'] > 1 and case.get('exc', 'Boom') == HANGS.get('exc'):
        # this shard has already waited out two calls that never came back for this kind of case (each costs two alarm
        # periods): the finding is recorded, further ones are not waited for
        raise hyp.Inconclusive('skipped: calls of this kind did not return twice before in this shard')
    watch = {'ticks': 0, 'idle_at': None, 'verdict': None}

    def on_alarm(signum, frame):
        # a verdict needs TWO consecutive ticks (HANG_S apart) at which every started call of f had finished, nothing was
        # in flight and no further call was started in between; a busy or slow machine only ever gives "inconclusive"
        watch['ticks'] += 1
        with ctl.cv:
            idle = not ctl.inflight and ctl.finished_calls == len(ctl.calls)
            n_calls = len(ctl.calls)
        if idle and watch['idle_at'] == n_calls:
            watch['verdict'] = 'idle'
            raise Hang()
        if watch['ticks'] >= 8:
            watch['verdict'] = 'busy'
            raise Hang()
        watch['idle_at'] = n_calls if idle else None
        signal.alarm(HANG_S)

    old_handler = signal.signal(signal.SIGALRM, on_alarm)
    signal.alarm(HANG_S)
    with ctl:
        try:
            form = case.get('form') or {}
            with hyp.quiet_output():
                if case['fn'] == 'threading':
                    kw = {'threads': case['threads'], 'use_tqdm': bool(form.get('tqdm'))}
                    if not form.get('default_sort'):
                        kw['sort'] = case['sort']
                    if not form.get('default_chunksize'):
                        kw['chunksize'] = case['chunksize']
                    if form.get('total'):
                        kw['total'] = n
                    if form.get('desc'):
                        kw['desc'] = 'tcv'
                    if form.get('starmap'):
                        # parallel_starmap(f, [(x,), ...]) == [f(x) for ...]
                        arg = ((x,) for x in xs) if case.get('gen') else [(x,) for x in xs]
                        result = tthr.parallel_starmap(ctl.f, arg, **kw)
                    else:
                        result = tthr.parallel_map(ctl.f, arg, **kw)
                else:
                    kw = {'threads': case['threads']}
                    if form.get('total'):
                        kw['total'] = n
                    if form.get('desc'):
                        kw['desc'] = 'tcv'
                    result = titer.parallel_map(ctl.f, arg, **kw)
        except tuple(EXC.values()) as e:
            error = e
        except Hang as e:
            error = e
            asyncio.set_event_loop(asyncio.new_event_loop())   # the interrupted loop still holds the dead call's futures
        except Exception as e:  # any other exception type is not "an exception raised by f"
            error = e
        finally:
            signal.alarm(0)
            signal.signal(signal.SIGALRM, old_handler)
    if isinstance(error, Hang):
        HANGS['n'] += 1
        HANGS['exc'] = case.get('exc', 'Boom')
        if watch['verdict'] == 'idle' and not ctl.stuck:
            # every call of f that was started has returned or raised long ago and nothing is in flight: there is
            # nothing left to wait for, yet the function has not come back
            raise Violation('did-not-return-although-every-call-of-f-finished',
                            {'case': case, 'calls': ctl.calls, 'completions': ctl.completions,
                             'idle_for_s': HANG_S, 'waited_s': HANG_S * watch['ticks']})
        raise hyp.Inconclusive('parallel_map did not return within the harness alarm')
    ctl.check_not_stuck()
    return xs, ctl, result, error


def eval_case(case, rec):
    case0 = case
    form = case.get('form') or {}
    if form.get('default_chunksize'):
        case = dict(case, chunksize=1000)   # the documented default
    if form.get('default_sort'):
        case = dict(case, sort=True)
    xs, ctl, result, error = _call(case0)
    n = len(xs)
    raising = set(case.get('raising', ()))
    calls = sorted(ctl.calls)
    info = {'case': case, 'calls': ctl.calls, 'completions': ctl.completions}
    if len(calls) != len(set(calls)):
        raise Violation('f-called-twice', info)
    if error is not None and not isinstance(error, EXC[case.get('exc', 'Boom')]):
        raise Violation('foreign-exception', dict(info, error=repr(error)))
    if not raising:
        if error is not None:
            raise Violation('spurious-exception', dict(info, error=repr(error)))
        if calls != list(range(n)):
            raise Violation('f-not-called-once-per-element', info)
        want = [ctl.returned[i] if i in ctl.returned else out_of(x) for i, x in enumerate(xs)]
        if not isinstance(result, list):
            raise Violation('result-not-list', dict(info, result=repr(result)))
        sort = case['sort'] if case['fn'] == 'threading' else True
        if sort:
            if result != want:
                raise Violation('result-order', dict(info, result=result, want=want))
        else:
            cs = case['chunksize']
            if len(result) != len(want):
                raise Violation('result-length', dict(info, result=result, want=want))
            for lo in range(0, n, cs):
                if sorted(result[lo:lo + cs], key=repr) != sorted(want[lo:lo + cs], key=repr):
                    raise Violation('chunk-not-permutation', dict(info, result=result, want=want, chunk_at=lo))
    else:
        if error is None:
            raise Violation('exception-swallowed', dict(info, result=repr(result)))
        if error.x not in raising or error.x not in ctl.completions:
            raise Violation('wrong-exception', dict(info, error=repr(error)))
    # classification
    cs = case['chunksize'] if case['fn'] == 'threading' else max(1, n)
    inv = False
    pos = {x: i for i, x in enumerate(ctl.completions)}
    for lo in range(0, n, cs):
        idx = [i for i in range(lo, min(n, lo + cs)) if i in pos]
        if any(pos[a] > pos[b] for a, b in zip(idx, idx[1:])):
            inv = True
            break
    cl = [case['fn'], 'inversion' if inv else 'in-order', 'threads=1' if case['threads'] == 1 else 'threads>1']
    if case.get('ret_exc'):
        cl.append('returns-exception-objects')
    if raising:
        cl.append('raising')
        cl.append('raising:' + case.get('exc', 'Boom'))
    if n == 0:
        cl.append('empty')
    if case['fn'] == 'threading' and n % max(1, case['chunksize']) != 0 and n > case['chunksize']:
        cl.append('short-last-chunk')
    if case['fn'] == 'threading' and not case['sort']:
        cl.append('unsorted')
    if case.get('none_at') is not None and n:
        cl.append('none-element')
    cl += ['form:' + k for k, v in sorted(form.items()) if v]
    if ctl.fallback_releases:
        cl.append('controller-fallback')
    rec.case(case, nontrivial=inv or bool(raising), classes=cl,
             sample={'case': case, 'completion_order': ctl.completions, 'result': result if n <= 12 else '...'})


@st.composite
def cases(draw):
    fn = draw(st.sampled_from(['threading', 'threading', 'iter']))
    n = draw(st.integers(0, 40))
    threads = draw(st.integers(1, 8))
    chunksize = draw(st.integers(1, 12))
    sort = draw(st.booleans())
    priority = draw(st.permutations(list(range(n)))) if n else []
    raising = []
    if n and draw(st.integers(0, 3)) == 0:
        raising = sorted(draw(st.sets(st.integers(0, n - 1), min_size=1, max_size=3)))
    none_at = draw(st.one_of(st.none(), st.none(), st.integers(0, 40)))
    exc = draw(st.sampled_from(['Boom', 'Boom', 'Stop', 'Key']))
    ret_exc = sorted(draw(st.sets(st.integers(0, n - 1), max_size=2))) if n and draw(st.integers(0, 4)) == 0 else []
    # call forms: progress bar on (the default), sort / chunksize left at their defaults, total=, desc=, parallel_starmap
    form = {k: draw(st.integers(0, 3)) == 0 for k in ('tqdm', 'default_sort', 'default_chunksize', 'total', 'desc', 'starmap', 'nested_input')}
    if draw(st.booleans()):
        form = {}
    return {'fn': fn, 'n': n, 'none_at': none_at, 'gen': draw(st.booleans()), 'threads': threads, 'chunksize': chunksize, 'sort': sort,
            'priority': list(priority), 'raising': raising, 'form': form, 'exc': exc, 'ret_exc': ret_exc}


# ---- chunked -------------------------------------------------------------------------------------

def eval_chunked(case, rec):
    from taskchain.utils.iter import chunked
    kind, n, size = case['kind'], case['n'], case['size']
    base = elems_for(n)
    for i in case.get('nones', []):
        if n:
            base[i % n] = None
    if kind == 'list':
        it = list(base)
    elif kind == 'gen':
        it = (x for x in base)
    elif kind == 'range':
        it = range(n)
        base = list(range(n))
    elif kind == 'tuple':
        it = tuple(base)
    else:
        it = ''.join(chr(97 + ((x or 0) % 26)) for x in base)
        base = list(it)
    try:
        chunks = [list(c) for c in chunked(it, size)]
    except Exception as e:
        raise Violation('chunked-raised', {'case': case, 'error': repr(e)})
    flat = [x for c in chunks for x in c]
    info = {'case': case, 'chunks': chunks if n <= 30 else '...'}
    if flat != base:
        raise Violation('chunked-content', info)
    if any(len(c) == 0 for c in chunks):
        raise Violation('chunked-empty-chunk', info)
    if any(len(c) != size for c in chunks[:-1]) or (chunks and not (1 <= len(chunks[-1]) <= size)):
        raise Violation('chunked-size', info)
    nt = len(chunks) >= 2 and len(chunks[-1]) < size
    rec.case(case, nontrivial=nt, classes=['chunked', 'chunked:' + kind] + (
        ['chunked:none-elements'] if case.get('nones') and n and kind in ('list', 'gen', 'tuple') else []) + (['chunked:multiple'] if n and n % size == 0 else []))


chunk_cases = st.builds(lambda k, n, s, nn: {'chunked': True, 'kind': k, 'n': n, 'size': s, 'nones': nn},
                        st.sampled_from(['list', 'gen', 'range', 'tuple', 'str']), st.integers(0, 120),
                        st.integers(1, 50), st.lists(st.integers(0, 119), max_size=6))


# ---- shards -----------------------------------------------------------------------------------------

def plan(tier):
    q = tier == 'quick'
    shards = [{'kind': 'exhaustive', 'part': k, 'parts': 4} for k in range(4)]
    shards += [{'kind': 'random', 'examples': 700 if q else 30000} for _ in range(8 if q else 12)]
    shards += [{'kind': 'chunked', 'examples': 3000 if q else 100000}]
    return shards


def run_shard(shard, seed, tier, rec):
    hyp.silence_library_logging()
    if shard['kind'] == 'exhaustive':
        k = 0
        count = 0
        for n in range(1, 6):
            for threads in range(2, n + 2):
                for perm in itertools.permutations(range(n)):
                    for fn, sort in (('threading', True), ('threading', False), ('iter', True)):
                        k += 1
                        if k % shard['parts'] != shard['part']:
                            continue
                        case = {'fn': fn, 'n': n, 'gen': False, 'threads': threads, 'chunksize': 5, 'sort': sort,
                                'priority': list(perm), 'raising': []}
                        count += 1
                        try:
                            eval_case(case, rec)
                        except Violation as v:
                            rec.evaluations += 1
                            rec.fail_now(case, v, kind='pmap')
                        except hyp.Inconclusive as e:
                            rec.inconclusive.append(str(e))
        rec.mark_exhaustive('one_chunk_n<=5_all_priority_orders', count, True)
    elif shard['kind'] == 'random':
        hyp.run_given(rec, cases(), lambda c: eval_case(c, rec), seed, shard['examples'], kind='pmap')
    else:
        hyp.run_given(rec, chunk_cases, lambda c: eval_chunked(c, rec), seed, shard['examples'], kind='chunked')


def replay(doc, rec):
    case = doc['case']
    if case.get('chunked'):
        eval_chunked(case, rec)
    else:
        eval_case(case, rec)
