"""C08 — The dependency graph is exactly the declared one, and acyclic."""
from hypothesis import strategies as st

from tcv import engine, gen, hyp, mutate
from tcv.hyp import Violation

LEVEL = 'exploration'
RULE = (
    'Engine cases (generated task modules x config trees x namespace mountings; every input declaration form: by class, '
    'by short name, by group:name, by relative namespace::name, ~pattern, optional InputTaskParameter present/absent in '
    'input_tasks or parameters; abstract tasks, wildcard / list / excluded_tasks selection; the same pipeline mounted '
    '1-3 times; names that are textual prefixes of namespaces) in parameter mode and name mode, plus labelled INVALID '
    'mutations: dangling required input, ambiguous short name, 1-/2-/k-cycles, excluded or abstract target. Oracle: '
    'independent reference model (tcv/model.py): task set, input task objects per task, optional defaults, graph edges, '
    'required_tasks / dependent_tasks / is_task_dependent_on closures with and without include_self; invalid cases '
    'must raise at construction. Non-trivial = >= 2 namespaces, or a pattern / optional / namespace-qualified input, '
    'or an invalid case; distinct by case digest.'
)
ASSUMPTIONS = [
    'the reference model (tcv/model.py) states the documented resolution rules; disagreements are triaged both ways',
    'generated class names are prefix-free (import strings are prefix patterns); qualified input names never start '
    'structurally with the declaring namespace',
    '~~pattern inputs are not generated (docs: namespace ignored; statement: resolved inside the own namespace)',
    'pattern inputs only match ungrouped tasks by construction (docs and code disagree on whether the group takes part)',
]


@st.composite
def cases(draw):
    case = draw(gen.cases(max_modules=3, max_tasks=4, allow_context=False))
    # name mode stores by config name: only meaningful when no config file is mounted twice (documented limits)
    from tcv import model
    try:
        insts = model.compose(case)
        multi = len({(i.fi, i.part) for i in insts}) < len(insts)
    except model.ModelError:
        multi = True
    case['name_mode'] = (not multi) and draw(st.integers(0, 3)) == 0
    if draw(st.integers(0, 3)) == 0:
        case = draw(mutate.invalid_graph(case))
    return case


def eval_case(case, rec):
    pm = not case.get('name_mode')
    with engine.World(case) as w:
        chain, mt, lerr, merr = engine.build_both(w, parameter_mode=pm)
        valid = engine.check_construction(case, chain, mt, lerr, merr)
        nss = set()
        cl = ['mode:' + ('parameter' if pm else 'name')]
        if valid:
            engine.check_task_set(case, chain, mt)
            engine.check_inputs(case, chain, mt)
            engine.check_graph(case, chain, mt)
            nss = {t.ns for t in mt.values()}
            forms = {i['form'] for m in case['program']['modules'] for t in m['tasks'] for i in t['inputs']}
            cl += ['form:' + f for f in sorted(forms)]
            if any(len(v) > 1 for v in _mounts(mt).values()):
                cl.append('multi-mount')
            if any(i.get('rel') for m in case['program']['modules'] for t in m['tasks'] for i in t['inputs']):
                cl.append('ns-qualified-input')
            cl.append('valid')
        else:
            cl.append('invalid:' + merr.kind)
        if case.get('mutation'):
            cl.append('mutation:' + case['mutation'])
        nt = (not valid) or len(nss) >= 2 or any(c in cl for c in ('form:pattern', 'form:absent', 'ns-qualified-input'))
        nt = nt or any(i.get('optional') for m in case['program']['modules'] for t in m['tasks'] for i in t['inputs'])
        rec.case(case, nontrivial=nt, classes=cl, sample=engine.describe(case))


def _mounts(mt):
    d = {}
    for n, t in mt.items():
        d.setdefault(t.slug, set()).add(t.ns)
    return d


def plan(tier):
    q = tier == 'quick'
    return [{'kind': 'graph', 'examples': 350 if q else 15000} for _ in range(8 if q else 16)]


def run_shard(shard, seed, tier, rec):
    hyp.run_given(rec, cases(), lambda c: eval_case(c, rec), seed, shard['examples'], kind='graph')


def replay(doc, rec):
    eval_case(doc['case'], rec)
