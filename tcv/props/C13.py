"""C13 — A MultiChain is its chains, sharing identical tasks."""
import copy

from tcv import gen, histgen, hyp, worker
from tcv.hyp import Violation

LEVEL = 'exploration'
RULE = (
    'Histories centred on MultiChains: a generated program with 2-4 configuration variants (overlapping pipelines; '
    'parameters, contexts or wiring differing at a chosen depth / upstream distance; identical sub-pipelines under '
    'different config names and file names; differences only in ignored parameters), MultiChain constructions over '
    'lists of 2-4 variants, standalone chains of the same variants, value requests across member chains, '
    'MultiChain.force and chain.force with all flag combinations, inspections. Oracle: every member chain is compared '
    'with the reference model of the STANDALONE chain of its config (task names, relative data_path, values); identity: '
    'two names (in one or in different member chains) are the same task object iff they are the same task class with '
    'the same model key; a value computed through one member is served to the others with zero runs (in-memory tasks '
    'included: one run in total); after MultiChain.force every member satisfies the forcing oracle of C07 and shared '
    'tasks are recomputed once. Non-trivial = a MultiChain with >= 1 pair of shared and >= 1 pair of distinct '
    'same-class tasks across its members.'
)
ASSUMPTIONS = [
    'a shared task object legitimately carries the IGNORED parameter values of the config that created it; only values, '
    'locations and identity are compared',
    'member configs get distinct names (documented requirement); MultiChain.force gets names present in every member',
]
RELEVANT = ['different-computations-share-object', 'same-computation-not-shared', 'task-set', 'value', 'unexpected-run',
            'expected-run-missing', 'is_forced', 'has_data', 'data_path', 'force-raised', 'force-ran-tasks',
            'construction-raised', 'run-received-wrong-inputs-or-parameters']
KINDS = {'chain': 1, 'multichain': 4, 'value': 8, 'inspect': 2, 'force_chain': 3, 'force_task': 1}
ZY = {}


def eval_case(hist, rec):
    h = copy.deepcopy(hist)
    h['ops'] = h['ops'] + histgen.closing_ops(h, slots=3, tasks=6, session=False)
    out = histgen.run_history(h, zygote=None, relevant=RELEVANT, flags=True)
    if getattr(out, 'stopped', None):
        rec.exclude('stopped:' + out.stopped)
        return
    nt = False
    cl = sorted({'op:' + o['op'] for o in hist['ops']})
    for s in out.steps:
        if s.get('kind') == 'built' and len(s.get('chains', [])) > 1:
            by_slug = {}
            for mi, mch in enumerate(s['chains']):
                for n, o in mch.by_name.items():
                    by_slug.setdefault(o.mt.slug, set()).add((mi, id(o)))
            shared = any(len({m for m, _ in v}) > len({i for _, i in v}) for v in by_slug.values())
            distinct = any(len({i for _, i in v}) >= 2 for v in by_slug.values())
            if shared:
                cl.append('multichain:shared-tasks')
            if distinct:
                cl.append('multichain:distinct-same-class-tasks')
            if shared and distinct:
                nt = True
    if any(s.get('kind') == 'force' and s.get('members', 1) > 1 for s in out.steps):
        cl.append('force:through-multichain')
    rec.case(hist, nontrivial=nt, classes=sorted(set(cl)), sample=histgen.describe(hist))


def strategy():
    # member configs often differ only in the NAME of a mount (the same computations under other namespaces): shared
    # objects then carry different names in different members
    return histgen.histories(KINDS, max_ops=18, n_variants=(2, 4),
                             gen_kw=dict(max_modules=3, max_tasks=3, kinds=gen.KINDS_ALL),
                             variant_kinds=histgen.CONFIG_ONLY + ['rename_mount'] * 6, name_mode=True)


def plan(tier):
    q = tier == 'quick'
    return [{'kind': 'history', 'examples': 130 if q else 5000} for _ in range(8 if q else 16)]


def run_shard(shard, seed, tier, rec):
    hyp.run_given(rec, strategy(), lambda h: eval_case(h, rec), seed, shard['examples'], kind='history',
                  shrink_budget=80)


def replay(doc, rec):
    eval_case(doc['case'], rec)
