"""C07 — Forcing recomputes exactly what was asked."""
import copy

from tcv import gen, histgen, hyp, worker
from tcv.hyp import Violation

LEVEL = 'exploration'
RULE = (
    'Histories over generated DAGs (2-10 tasks, every data kind, shared objects across namespaces, MultiChains) in any '
    'store state: task.force(), task.force(delete_data=True), chain.force(names | objects | single name, recompute in '
    '{F,T}, delete_data in {F,T}), MultiChain.force, interleaved with value requests in arbitrary order, inspections, '
    'new chains on the same directory, restarts and fresh-interpreter sessions. In this property the value of every run '
    'also embeds the run\'s sequence number, so a recomputed result differs from the one it replaces and a dependant '
    'embeds the value its input had when the dependant ran. Oracle (store/evaluator model, checked after EVERY step): '
    'is_forced of every task of every live chain = model (exactly the named tasks and everything downstream, nothing '
    'upstream or unrelated), has_data of every task = model (delete_data removes exactly those results), the '
    'invocation-log increment = predicted set (a forced task runs exactly once on its next request although a result '
    'exists; recompute runs every forced task exactly once plus missing upstream; unforced tasks are served from '
    'storage), every run received the values the model expects, every returned value = model (so a fresh chain loads '
    'the NEW stored result). Non-trivial = some chain.force whose closure is a proper non-empty subset of the chain with '
    '>= 1 forced task having a stored result and >= 1 unforced upstream task having a stored result.'
)
ASSUMPTIONS = [
    'values of directory / lazy-generator results held in memory by another chain are handles to the stored result; a '
    'history that deletes a result under such a handle is skipped',
    'MultiChain.force is called with task names present in every member chain',
]
RELEVANT = ['run-failure-not-propagated', 'runs-after-failure', 'is_forced', 'has_data', 'unexpected-run', 'expected-run-missing', 'value', 'force-ran-tasks',
            'force-raised', 'run-received-wrong-inputs-or-parameters', 'ran-before-inputs-available', 'tasks_df-computed']
KINDS = {'chain': 2, 'multichain': 1, 'value': 7, 'inspect': 1, 'force_task': 3, 'force_chain': 5, 'restart': 1,
         'session': 1, 'fault': 1}
ZY = {}


def eval_case(hist, rec):
    h = copy.deepcopy(hist)
    h['salt'] = True
    h['ops'] = h['ops'] + histgen.closing_ops(h, slots=2, tasks=6, session=True)
    out = histgen.run_history(h, zygote=ZY.get('z'), relevant=RELEVANT, flags=True)
    if getattr(out, 'stopped', None):
        rec.exclude('stopped:' + out.stopped)
        return
    flat = histgen.flat_steps(out)
    forces = [s for s in flat if s.get('kind') == 'force']
    nt = any(s.get('nontrivial') for s in forces)
    cl = sorted({'op:' + o['op'] for o in hist['ops']})
    for s in forces:
        if 'recompute' in s:
            cl.append(f'force_chain:recompute={s["recompute"]},delete={s["delete"]}')
            if s.get('members', 1) > 1:
                cl.append('force:through-multichain')
    if nt:
        cl.append('proper-subset-with-stored-results')
    rec.case(hist, nontrivial=nt, classes=sorted(set(cl)), sample=histgen.describe(hist))


def strategy():
    gen.UNREAD_INPUTS['on'] = True   # run bodies that do not read every declared input (not run, not loaded; yet forced)
    return histgen.histories(KINDS, max_ops=22, n_variants=(1, 2),
                             gen_kw=dict(max_modules=3, max_tasks=4, kinds=gen.KINDS_ALL, allow_context=False), name_mode=3)


def plan(tier):
    q = tier == 'quick'
    return [{'kind': 'history', 'examples': 110 if q else 5000} for _ in range(8 if q else 16)]


def run_shard(shard, seed, tier, rec):
    ZY['z'] = worker.Zygote()
    try:
        hyp.run_given(rec, strategy(), lambda h: eval_case(h, rec), seed, shard['examples'], kind='history',
                      shrink_budget=60)
    finally:
        ZY['z'].close()


def replay(doc, rec):
    ZY['z'] = worker.Zygote()
    try:
        eval_case(doc['case'], rec)
    finally:
        ZY['z'].close()
