"""C06 — Stored values round-trip exactly."""
import base64
import pickle

from hypothesis import strategies as st
from hypothesis.extra import numpy as hnp
from hypothesis.extra import pandas as hpd

from tcv import hyp, values
from tcv.eq import array_eq, canon, pandas_eq, strict_eq, tree_digest
from tcv.hyp import Violation

LEVEL = 'exploration'
RULE = (
    'One case = a value of one storable domain returned by the run method of a real task (one task class per return '
    'annotation / data class): JSON-like values under dict / list / str / int / float / bool / Dict[str, Any] '
    'annotations (recursive to depth 6, 64-bit signed and unsigned boundary integers, finite floats incl. -0.0 / '
    'subnormals / 1e308, unicode incl. NUL, U+2028, U+0085, astral, empty and falsy values at top level and nested); '
    'numpy arrays (all int/uint/float/complex/bool widths, U and S strings, 0-d to 4-d, zero-length axes, Fortran '
    'order, NaN payloads); DataFrames and Series (mixed dtypes, arbitrary / duplicate / Multi indexes and labels, '
    'empty); generated sequences of JSON-like items (eager Generator and GeneratedDataLazy); lists of arrays; '
    'directory trees (names x bytes). Oracle: run_returned == computing_chain.value == fresh_chain.value under '
    'type-strict equality (floats by bit pattern, arrays by dtype+shape+bytes, frames by assert_frame_equal exact + '
    'dtypes + index types, directories by path -> bytes; mapping key order not compared), a third chain loads the same '
    'again, and the digest of every file under the data directory is identical before and after the loading chains. '
    'Non-trivial = not a lone default scalar: nesting depth >= 2, or an empty / falsy / boundary / non-ASCII element, '
    'or a non-default dtype or shape (ndim != 1, zero-size, non-float64).'
)
ASSUMPTIONS = [
    'out of the storable domain by statement: NaN/inf in JSON, ints beyond 64 bits, non-string keys, tuples, object '
    'arrays, lone surrogates',
    'the "later chain" is a new Chain object on the same directory in the same process; cross-process loading is '
    'exercised by C01/C04',
    'mapping key order is not compared (not claimed by the statement)',
]

# ---- strategies ------------------------------------------------------------------------------------

U64_MAX = 2 ** 64 - 1
json_ints = st.one_of(values.ints, st.sampled_from([U64_MAX, 2 ** 63, U64_MAX - 1]), st.integers(0, U64_MAX))
json_text = st.one_of(values.TEXT_FULL, st.sampled_from(['', ' ', ' x ', '\n', '\r\n', '\x00', ' a', 'a\u0085b', ' ',
                                                          '\U0001F600', '"', '\\', 'é', '\t', 'null', '{}', '\x1f']))
json_scalar = st.one_of(st.none(), st.booleans(), json_ints, values.floats, json_text)
json_any = st.recursive(json_scalar, lambda ch: st.one_of(st.lists(ch, max_size=4),
                                                          st.dictionaries(json_text, ch, max_size=4)), max_leaves=14)

np_dtypes = st.sampled_from(['int8', 'int16', 'int32', 'int64', 'uint8', 'uint16', 'uint32', 'uint64', 'float16',
                             'float32', 'float64', 'complex64', 'complex128', 'bool', '<U1', '<U5', 'S1', 'S4', '>i4',
                             '>f8'])


@st.composite
def np_arrays(draw):
    dt = draw(np_dtypes)
    shape = draw(hnp.array_shapes(min_dims=0, max_dims=4, min_side=0, max_side=3))
    a = draw(hnp.arrays(dtype=dt, shape=shape))
    if a.ndim >= 2 and draw(st.booleans()):
        import numpy as np
        a = np.asfortranarray(a)
    return a


@st.composite
def frames(draw):
    import pandas as pd
    ncols = draw(st.integers(0, 4))
    labels = draw(st.lists(st.one_of(st.sampled_from(['a', 'b', 'a b', '', 'é', 0, 1, 'c']), st.integers(-2, 2)),
                           min_size=ncols, max_size=ncols))
    cols = []
    for i, lab in enumerate(labels):
        dt = draw(st.sampled_from(['int64', 'float64', 'bool', 'object', 'int8', 'uint16', 'float32']))
        if dt == 'object':
            cols.append(hpd.column(name=i, elements=st.one_of(json_text, st.none()), dtype=object))
        else:
            cols.append(hpd.column(name=i, dtype=dt))
    idx = draw(st.sampled_from(['range', 'int', 'str', 'dup', 'multi']))
    if idx == 'range':
        index = hpd.range_indexes(min_size=0, max_size=5)
    elif idx == 'int':
        index = hpd.indexes(dtype='int64', min_size=0, max_size=5)
    elif idx == 'str':
        index = hpd.indexes(elements=values.TEXT_SMALL, dtype=object, min_size=0, max_size=5)
    else:
        index = hpd.indexes(elements=st.integers(0, 2), dtype='int64', min_size=0, max_size=5, unique=False)
    df = draw(hpd.data_frames(columns=cols, index=index)) if cols else pd.DataFrame(index=draw(index))
    df.columns = labels
    if idx == 'multi' and len(df) > 0:
        df.index = pd.MultiIndex.from_tuples([(i % 2, f'k{i}') for i in range(len(df))], names=['x', None])
    return df


series = st.one_of(
    hpd.series(dtype='float64', index=hpd.range_indexes(0, 5)),
    hpd.series(dtype='int64', index=hpd.indexes(elements=values.TEXT_SMALL, dtype=object, max_size=5)),
    hpd.series(elements=json_text, dtype=object, index=hpd.range_indexes(0, 4)),
)

dir_trees = st.dictionaries(
    st.sampled_from(['a', 'b.txt', 'sub/c', 'sub/d.bin', 'sub/deep/e', 'é', 'x y', '.hidden']),
    st.binary(max_size=40), max_size=5)

KINDS = {
    'json_dict': st.dictionaries(json_text, json_any, max_size=5),
    'json_typed_dict': st.dictionaries(json_text, json_any, max_size=5),
    'json_list': st.lists(json_any, max_size=5),
    'json_str': json_text,
    'json_int': st.one_of(json_ints, st.booleans()),
    'json_float': values.floats,
    'json_bool': st.booleans(),
    'numpy': np_arrays(),
    'frame': frames(),
    'series': series,
    # (a long sequence now and then: writers that work in blocks of a few thousand rows must not lose the seams)
    'generator': st.one_of(st.lists(json_any, max_size=6), st.lists(json_any, max_size=6), st.lists(json_any, max_size=6),
                           st.integers(8190, 8200).map(lambda n: list(range(n))),
                           st.integers(16380, 16390).map(lambda n: [f's{i}' for i in range(n)])),
    'lazy': st.one_of(st.lists(json_any, max_size=6), st.lists(json_any, max_size=6), st.lists(json_any, max_size=6),
                      st.integers(8190, 8200).map(lambda n: list(range(n)))),
    'list_numpy': st.one_of(st.lists(np_arrays(), max_size=4), st.lists(np_arrays(), max_size=4),
                            # equally shaped arrays of DIFFERENT dtypes (ids, mask, weights): each keeps its own dtype
                            st.integers(1, 4).map(lambda n: [__import__('numpy').arange(n, dtype='int64') + 2 ** 60,
                                                             __import__('numpy').arange(n) % 2 == 0,
                                                             __import__('numpy').arange(n, dtype='float32') / 3]),
                            # a long list: element files beyond 1000 must still come back in order
                            st.integers(1001, 1030).map(lambda n: [__import__('numpy').array(i, dtype='int32')
                                                                   for i in range(n)])),
    'dir': dir_trees,
}
BINARY_KINDS = {'numpy', 'frame', 'series', 'list_numpy', 'dir'}


@st.composite
def cases(draw, kinds=tuple(KINDS)):
    kind = draw(st.sampled_from(kinds))
    v = draw(KINDS[kind])
    case = encode_case(kind, v)
    if draw(st.booleans()):
        # the result is later recomputed (forced) with another value of the same domain and stored over the first
        case['second'] = encode_case(kind, draw(KINDS[kind]))
    if kind in ('generator', 'list_numpy'):
        case['interrupt_after'] = draw(st.integers(0, 5))
    return case


def encode_case(kind, v):
    if kind in BINARY_KINDS:
        return {'kind': kind, 'pickle_b64': base64.b64encode(pickle.dumps(v)).decode(), 'repr': repr(v)[:400]}
    return {'kind': kind, 'value': v}


def decode_case(case):
    if 'pickle_b64' in case:
        return pickle.loads(base64.b64decode(case['pickle_b64']))
    return case['value']


# ---- tasks -------------------------------------------------------------------------------------------

HOLDER = {}


def _tasks():
    global _T
    try:
        return _T
    except NameError:
        pass
    from typing import Any, Dict, Generator, List
    import numpy as np
    import pandas as pd
    from taskchain import Task, DirData
    from taskchain.data import GeneratedDataLazy, ListOfNumpyData

    def mk(name, ann, body=None, meta=None):
        def run(self):
            return HOLDER['v']
        if body is not None:
            run = body
        run.__annotations__ = {'return': ann}
        ns = {'run': run}
        m = {'name': 'rt_' + name}
        m.update(meta or {})
        ns['Meta'] = type('Meta', (), m)
        return type('Rt' + name.title().replace('_', ''), (Task,), ns)

    def gen_body(self):
        return (x for x in HOLDER['v'])

    def lazy_body(self):
        return (x for x in HOLDER['v'])

    def dir_body(self):
        data = self.get_data_object()
        for rel, content in HOLDER['v'].items():
            p = data.dir / rel
            p.parent.mkdir(parents=True, exist_ok=True)
            p.write_bytes(content)
        return data

    _T = {
        'json_dict': mk('json_dict', dict),
        'json_typed_dict': mk('json_typed_dict', Dict[str, Any]),
        'json_list': mk('json_list', list),
        'json_str': mk('json_str', str),
        'json_int': mk('json_int', int),
        'json_float': mk('json_float', float),
        'json_bool': mk('json_bool', bool),
        'numpy': mk('numpy', np.ndarray),
        'frame': mk('frame', pd.DataFrame),
        'series': mk('series', pd.Series),
        'generator': mk('generator', Generator, gen_body),
        'lazy': mk('lazy', Generator, lazy_body, {'data_class': GeneratedDataLazy}),
        'list_numpy': mk('list_numpy', List, None, {'data_class': ListOfNumpyData}),
        'dir': mk('dir', DirData, dir_body),
    }
    return _T


def observe(kind, value):
    """Normalise what a chain returned into something comparable with what run returned."""
    if kind == 'lazy':
        if not callable(value):
            raise Violation('lazy-value-not-callable', {'got': repr(value)[:200]})
        return list(value())
    if kind == 'dir':
        return {rel: h for rel, h in tree_digest(value).items() if h[0] == 'file'}
    return value


def expected_obs(kind, v):
    import hashlib
    if kind == 'dir':
        return {rel: ('file', hashlib.sha256(b).hexdigest()) for rel, b in v.items()}
    if kind in ('generator', 'lazy'):
        return list(v)
    return v


def same(kind, a, b):
    if kind == 'numpy':
        return array_eq(a, b)
    if kind in ('frame', 'series'):
        return pandas_eq(a, b)
    if kind == 'list_numpy':
        if not isinstance(a, list) or not isinstance(b, list) or len(a) != len(b):
            return f'list lengths {len(a) if isinstance(a, list) else type(a)} vs {len(b) if isinstance(b, list) else type(b)}'
        for i, (x, y) in enumerate(zip(a, b)):
            d = array_eq(x, y)
            if d:
                return f'element {i}: {d}'
        return None
    return None if strict_eq(a, b) else f'{repr(a)[:200]} != {repr(b)[:200]}'


def depth(v):
    if isinstance(v, dict):
        return 1 + max([depth(x) for x in v.values()] + [0])
    if isinstance(v, list):
        return 1 + max([depth(x) for x in v] + [0])
    return 0


def leaves(v):
    if isinstance(v, dict):
        for k, x in v.items():
            yield k
            yield from leaves(x)
    elif isinstance(v, list):
        for x in v:
            yield from leaves(x)
    else:
        yield v


def nontrivial(kind, v):
    import numpy as np
    if kind.startswith('json') or kind in ('generator', 'lazy'):
        if depth(v) >= 2:
            return True
        for l in leaves(v):
            if l is None or l is False or l == 0 or l == '' or (isinstance(l, int) and abs(l) >= 2 ** 31) or (
                    isinstance(l, str) and not l.isascii()) or (isinstance(l, float) and (l == 0 or abs(l) < 1e-300 or abs(l) > 1e300)):
                return True
        return v in ([], {}, '', 0, False, 0.0)
    if kind == 'numpy':
        return v.ndim != 1 or v.size == 0 or str(v.dtype) != 'float64'
    if kind == 'list_numpy':
        return len(v) != 1 or any(nontrivial('numpy', a) for a in v)
    if kind in ('frame', 'series'):
        return len(v) == 0 or not isinstance(v.index, __import__('pandas').RangeIndex) or kind == 'frame' and (
            len(set(map(str, v.dtypes))) > 1 or len(set(v.columns)) < len(v.columns))
    if kind == 'dir':
        return len(v) != 1 or any('/' in k for k in v) or any(len(b) == 0 for b in v.values())
    return False


def eval_case(case, rec):
    import taskchain
    kind = case['kind']
    v = decode_case(case)
    cls = _tasks()[kind]
    tmp = hyp.scratch_dir('tcv-c06-')
    info = {'kind': kind, 'value': case.get('value', case.get('repr'))}
    try:
        def chain():
            return taskchain.Config(tmp, name='c', data={'tasks': [cls]}).chain()

        HOLDER['v'] = v
        want = expected_obs(kind, v)
        try:
            with hyp.quiet_output():
                t1 = chain()['rt_' + kind]
                got1 = observe(kind, t1.value)
        except Violation:
            raise
        except Exception as e:
            raise Violation('computing-chain-raised', dict(info, error=repr(e)))
        d = same(kind, got1, want)
        if d:
            raise Violation('computing-chain-value-differs-from-run-result', dict(info, diff=d))
        HOLDER['v'] = '<<run must not be called again>>'
        before = tree_digest(tmp)
        for label in ('fresh-chain', 'third-chain'):
            try:
                with hyp.quiet_output():
                    t2 = chain()['rt_' + kind]
                    if not t2.has_data:
                        raise Violation('stored-result-not-visible', info)
                    got2 = observe(kind, t2.value)
            except Violation:
                raise
            except Exception as e:
                raise Violation('loading-raised', dict(info, error=repr(e), via=label))
            d = same(kind, got2, want)
            if d:
                raise Violation('loaded-value-differs', dict(info, diff=d, via=label))
            # what a chain hands out belongs to the caller: mutating it must not change what later chains load
            try:
                if isinstance(got2, list):
                    got2.append('<<mutated by the first loader>>')
                elif isinstance(got2, dict):
                    got2['<<mutated by the first loader>>'] = 1
                elif kind == 'numpy' and got2.ndim >= 1 and got2.size > 1 and got2.flags.writeable:
                    import numpy as _np
                    _np.copyto(got2, _np.flip(got2).copy())   # in place: a file-backed (memory-mapped) value would write through
                elif kind == 'list_numpy' and isinstance(got2, list):
                    got2.reverse()
            except Exception:
                pass
        # a load that is interrupted part-way (Ctrl-C while a long list is being read), then the SAME task object is asked
        # again: it may fail, or load the whole value - it must not hand out the part that had been read
        if kind in ('generator', 'list_numpy') and isinstance(want, list) and len(want) >= 2:
            import numpy as _np
            import taskchain.data as _tcdata
            stop_after = 1 + case.get('interrupt_after', 0) % (len(want) - 1)
            calls = {'n': 0}
            real_iter, real_load = _tcdata.iter_json_file, _np.load

            def iter_then_interrupt(path, *a, **kw):
                for item in real_iter(path, *a, **kw):
                    if calls['n'] >= stop_after:
                        raise KeyboardInterrupt('injected while loading')
                    calls['n'] += 1
                    yield item

            def load_then_interrupt(*a, **kw):
                if calls['n'] >= stop_after:
                    raise KeyboardInterrupt('injected while loading')
                calls['n'] += 1
                return real_load(*a, **kw)

            with hyp.quiet_output():
                t3 = chain()['rt_' + kind]
            _tcdata.iter_json_file, _np.load = iter_then_interrupt, load_then_interrupt
            interrupted = False
            try:
                with hyp.quiet_output():
                    _ = t3.value
            except KeyboardInterrupt:
                interrupted = True
            except Exception:
                pass
            finally:
                _tcdata.iter_json_file, _np.load = real_iter, real_load
            if interrupted:
                try:
                    with hyp.quiet_output():
                        got3 = observe(kind, t3.value)
                except Exception:
                    rec.cls('interrupted-load:retry-raised')
                else:
                    d = same(kind, got3, want)
                    if d:
                        raise Violation('value-after-interrupted-load-differs', dict(info, diff=d, read_before_interrupt=stop_after))
                    rec.cls('interrupted-load:retry-loaded-all')
        after = tree_digest(tmp)
        if before != after:
            changed = sorted(set(before.items()) ^ set(after.items()))[:4]
            raise Violation('loading-changed-stored-files', dict(info, changed=repr(changed)))
        if 'second' in case:
            v2 = decode_case(case['second'])
            want2 = expected_obs(kind, v2)
            info2 = dict(info, second=case['second'].get('value', case['second'].get('repr')))
            HOLDER['v'] = v2
            try:
                with hyp.quiet_output():
                    t3 = chain()['rt_' + kind]
                    got3 = observe(kind, t3.force().value)
            except Violation:
                raise
            except Exception as e:
                raise Violation('forced-recomputation-raised', dict(info2, error=repr(e)))
            d = same(kind, got3, want2)
            if d:
                raise Violation('recomputed-value-differs-from-run-result', dict(info2, diff=d))
            HOLDER['v'] = '<<run must not be called again>>'
            try:
                with hyp.quiet_output():
                    got4 = observe(kind, chain()['rt_' + kind].value)
            except Violation:
                raise
            except Exception as e:
                raise Violation('loading-raised', dict(info2, error=repr(e), via='chain-after-recomputation'))
            d = same(kind, got4, want2)
            if d:
                raise Violation('loaded-value-differs-after-recomputation', dict(info2, diff=d))
        nt = nontrivial(kind, v)
        cl = ['kind:' + kind] + (['recomputed-over-existing'] if 'second' in case else [])
        if kind == 'numpy':
            cl.append('np:' + v.dtype.kind + ('/0d' if v.ndim == 0 else '') + ('/empty' if v.size == 0 else ''))
        rec.case(case, nontrivial=nt, classes=cl, key=hyp.digest([kind, case.get('pickle_b64') or canon(v)]),
                 sample={'kind': kind, 'value': case.get('value', case.get('repr'))})
    finally:
        HOLDER.pop('v', None)
        hyp.drop_scratch(tmp)


def plan(tier):
    q = tier == 'quick'
    groups = [
        ('json_dict', 'json_typed_dict', 'json_list'), ('json_str', 'json_int', 'json_float', 'json_bool'),
        ('numpy',), ('frame', 'series'), ('generator', 'lazy'), ('list_numpy', 'dir'),
    ]
    shards = []
    for g in groups:
        for _ in range(2 if q else 3):
            shards.append({'kind': 'roundtrip', 'kinds': list(g), 'examples': 450 if q else 9000})
    return shards


def run_shard(shard, seed, tier, rec):
    hyp.silence_library_logging()
    _tasks()
    hyp.run_given(rec, cases(tuple(shard['kinds'])), lambda c: eval_case(c, rec), seed, shard['examples'],
                  kind='roundtrip')


def replay(doc, rec):
    hyp.silence_library_logging()
    _tasks()
    eval_case(doc['case'], rec)
