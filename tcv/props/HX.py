"""Development aid (not registered): C01's history mix with EVERY model clause relevant."""
from tcv.props import C01 as base
from tcv import histgen, hyp, worker
import copy

LEVEL, RULE, ASSUMPTIONS = base.LEVEL, 'dev', []
ZY = base.ZY


def eval_case(hist, rec):
    h = copy.deepcopy(hist)
    h['ops'] = h['ops'] + histgen.closing_ops(h)
    histgen.run_history(h, zygote=ZY.get('z'), relevant=None)
    rec.case(hist, nontrivial=True)


def plan(tier):
    return [{'kind': 'history', 'examples': 150} for _ in range(8)]


def run_shard(shard, seed, tier, rec):
    ZY['z'] = worker.Zygote()
    try:
        hyp.run_given(rec, base.strategy(), lambda h: eval_case(h, rec), seed, shard['examples'], kind='history',
                      shrink_budget=60)
    finally:
        ZY['z'].close()


def replay(doc, rec):
    ZY['z'] = worker.Zygote()
    try:
        eval_case(doc['case'], rec)
    finally:
        ZY['z'].close()
