"""C16 — `cached` keys identify the call, not how it was written."""
import copy
import json

from hypothesis import strategies as st

from tcv import hyp, values
from tcv.eq import canon, strict_eq
from tcv.hyp import Violation

LEVEL = 'exploration'
RULE = (
    'A case = a generated class with 1-3 cached methods (1-5 parameters each: positional, defaulted, keyword-only with '
    'and without defaults; decorator form @cached / @cached() / @cached(cache) / ignore_kwargs / version; back-end '
    'InMemoryCache or JsonCache as the object\'s own cache) and a sequence of 4-25 calls. Each call picks a BINDING '
    'from a per-method pool (bindings differ in one argument: retagged scalar 1/1.0/True/\'1\', changed nested leaf, '
    'changed ignored argument) and a SPELLING of it (positional/keyword split, keyword order, defaults spelled or '
    'omitted, mapping keys of nested values permuted), plus a control keyword (none/force_cache/only_cache/'
    'store_cache_value). Oracle: dictionary model keyed by (method, version, type-strict canonical binding minus '
    'ignored names). Non-trivial = the sequence used >=2 spellings of one binding and >=2 bindings of one method that '
    'differ in a non-ignored argument.'
)
ASSUMPTIONS = [
    'argument values are JSON-like with string keys (the statement quantifies over JSON-distinguishable values)',
    'signatures without *args / positional-only parameters (a trailing **options is generated); custom key functions '
    'are not generated',
    'a decorator-level cache object is private to one method (sharing one cache object between methods is not covered '
    'by the statement)',
]

ARG_VALUES = values.json_values(max_leaves=6)
PNAMES = ['a', 'b', 'c', 'd', 'e']


@st.composite
def method_spec(draw, idx):
    n = draw(st.integers(1, 5))
    names = PNAMES[:n]
    n_pos = draw(st.integers(0, n))
    params = []
    seen_default = False
    for i, nm in enumerate(names):
        kwonly = i >= n_pos
        has_def = draw(st.booleans())
        if not kwonly and seen_default:
            has_def = True
        if not kwonly and has_def:
            seen_default = True
        p = {'name': nm, 'kwonly': kwonly, 'has_default': has_def}
        if has_def:
            p['default'] = draw(st.one_of(st.sampled_from(values.LOOKALIKES), ARG_VALUES))
        params.append(p)
    form = draw(st.sampled_from(['bare', 'call', 'call', 'object', 'shared']))
    ignore = []
    version = None
    if form != 'bare':
        if draw(st.booleans()):
            ignore = draw(st.lists(st.sampled_from(names), max_size=2, unique=True))
        if form == 'call' and draw(st.booleans()):
            version = draw(st.sampled_from(['1', '2', 'v.1', 'x']))
        if form == 'shared':
            # ONE configured decorator object (`versioned = cached(version='sv')`) applied to several methods
            ignore, version = [], 'sv'
    # bindings pool
    base = {}
    for p in params:
        if p['has_default'] and draw(st.booleans()):
            base[p['name']] = copy.deepcopy(p['default'])
        else:
            base[p['name']] = draw(ARG_VALUES)
    pool = [base]
    for _ in range(draw(st.integers(1, 3))):
        b = copy.deepcopy(draw(st.sampled_from(pool)))
        k = draw(st.sampled_from(names))
        b[k] = draw(st.one_of(st.sampled_from(values.LOOKALIKES), ARG_VALUES, st.just(_mutate_leaf(b[k]))))
        pool.append(b)
    var_kw = draw(st.integers(0, 3)) == 0
    if var_kw:
        # a trailing **options: extra keywords are arguments like any other (and so part of the binding)
        for b in pool:
            for extra in draw(st.lists(st.sampled_from(['top_k', 'opt']), max_size=2, unique=True)):
                b[extra] = draw(st.one_of(st.integers(0, 2), st.sampled_from(['x', None])))
    return {'name': f'm{idx}', 'params': params, 'form': form, 'ignore': ignore, 'version': version, 'pool': pool,
            'returns_none': draw(st.integers(0, 4)) == 0, 'var_kw': var_kw}


def _mutate_leaf(v):
    v = copy.deepcopy(v)
    if isinstance(v, list) and v:
        v[-1] = _mutate_leaf(v[-1])
        return v
    if isinstance(v, dict) and v:
        k = sorted(v)[-1]
        v[k] = _mutate_leaf(v[k])
        return v
    if isinstance(v, bool):
        return int(v)
    if isinstance(v, int):
        return float(v) if abs(v) < 2 ** 53 else v + 1
    if isinstance(v, float):
        return int(v) if abs(v) < 2 ** 53 and v == int(v) else v / 2 + 1.0
    if isinstance(v, str):
        return v + 'x'
    return 'None' if v is None else 1


@st.composite
def cases(draw):
    nm = draw(st.integers(1, 3))
    methods = [draw(method_spec(i)) for i in range(nm)]
    backend = draw(st.sampled_from(['memory', 'json']))
    ops = []
    for _ in range(draw(st.integers(4, 25))):
        mi = draw(st.integers(0, nm - 1))
        m = methods[mi]
        bi = draw(st.integers(0, len(m['pool']) - 1))
        pos_names = [p['name'] for p in m['params'] if not p['kwonly']]
        op = {
            'm': mi, 'b': bi,
            'npos': draw(st.integers(0, len(pos_names))),
            'omit': draw(st.lists(st.booleans(), min_size=len(m['params']), max_size=len(m['params']))),
            'kworder': draw(st.permutations(list(range(len(m['params']))))),
            'revkeys': draw(st.booleans()),
            'ctl': draw(st.sampled_from(['none', 'none', 'none', 'force', 'only', 'store', 'force+store'])),
        }
        if op['ctl'] in ('store', 'force+store'):
            op['store'] = draw(ARG_VALUES)
            if backend == 'memory' and draw(st.integers(0, 3)) == 0:
                op['store'] = {'__ndarray__': draw(st.lists(st.integers(0, 9), min_size=2, max_size=4))}
        ops.append(op)
    return {'methods': methods, 'backend': backend, 'ops': ops}


def _store_value(v):
    """A supplied value: JSON-like, or (in-memory cache only) a numpy array - a value with element-wise ==."""
    if isinstance(v, dict) and set(v) == {'__ndarray__'}:
        import numpy as np
        return np.array(v['__ndarray__'])
    return copy.deepcopy(v)


def _src(methods):
    lines = ['_shared = cached(version="sv")', '', '',
             'class Obj:', '    def __init__(self, cache, log):', '        self.cache = cache', '        self._log = log']
    for m in methods:
        sig, seen_kw = ['self'], False
        for p in m['params']:
            if p['kwonly'] and not seen_kw:
                sig.append('*')
                seen_kw = True
            sig.append(p['name'] + (f'={p["default"]!r}' if p['has_default'] else ''))
        if m.get('var_kw'):
            sig.append('**options')
        deco_args = []
        if m['form'] == 'object':
            deco_args.append(f'_caches[{m["name"]!r}]')
        if m['ignore']:
            deco_args.append(f'ignore_kwargs={m["ignore"]!r}')
        if m['version'] is not None:
            deco_args.append(f'version={m["version"]!r}')
        deco = '@cached' if m['form'] == 'bare' else ('@_shared' if m['form'] == 'shared' else f'@cached({", ".join(deco_args)})')
        names = ', '.join([f'{p["name"]}={p["name"]}' for p in m['params']] + (['**options'] if m.get('var_kw') else []))
        ret = 'None' if m.get('returns_none') else 'r'
        lines += [f'    {deco}', f'    def {m["name"]}({", ".join(sig)}):',
                  f'        r = self._call({m["name"]!r}, dict({names}))', f'        return {ret}']
    lines += ['    def _call(self, name, received):',
              '        self._log.append((name, received))',
              '        return {"m": name, "seq": len(self._log), "got": received}']
    return '\n'.join(lines) + '\n'


def _revkeys(v):
    if isinstance(v, dict):
        return {k: _revkeys(v[k]) for k in reversed(list(v))}
    if isinstance(v, list):
        return [_revkeys(x) for x in v]
    return v


def eval_case(case, rec):
    from taskchain import cache as tc
    methods = case['methods']
    tmp = hyp.scratch_dir('tcv-c16-')
    try:
        def mk(sub):
            return tc.InMemoryCache() if case['backend'] == 'memory' else tc.JsonCache(tmp / sub)

        ns = {'cached': tc.cached, '_caches': {m['name']: mk('deco_' + m['name']) for m in methods}}
        src = _src(methods)
        exec(compile(src, '<c16>', 'exec'), ns)
        log = []
        obj = ns['Obj'](mk('own'), log)
        model = {}
        spellings = {}
        keys_per_method = {}
        for step, op in enumerate(case['ops']):
            m = methods[op['m']]
            binding = m['pool'][op['b']]
            args, kwargs = [], {}
            pos_names = [p['name'] for p in m['params'] if not p['kwonly']]
            for i, p in enumerate(m['params']):
                nm = p['name']
                val = copy.deepcopy(binding[nm])
                if op['revkeys']:
                    val = _revkeys(val)
                if nm in pos_names[:op['npos']]:
                    args.append(val)
                    continue
                if p['has_default'] and strict_eq(p['default'], binding[nm]) and op['omit'][i]:
                    continue
                kwargs[nm] = val
            kwargs = {methods[op['m']]['params'][i]['name']: kwargs[methods[op['m']]['params'][i]['name']]
                      for i in op['kworder'] if methods[op['m']]['params'][i]['name'] in kwargs}
            declared = {p['name'] for p in m['params']}
            for extra in [k for k in binding if k not in declared]:
                kwargs[extra] = copy.deepcopy(binding[extra])   # (collected by **options)
            ctl = {}
            if op['ctl'] == 'force':
                ctl['force_cache'] = True
            elif op['ctl'] == 'only':
                ctl['only_cache'] = True
            elif op['ctl'] == 'store':
                ctl['store_cache_value'] = _store_value(op['store'])
            elif op['ctl'] == 'force+store':
                ctl['force_cache'] = True
                ctl['store_cache_value'] = _store_value(op['store'])
            mkey = (m['name'], canon({k: v for k, v in binding.items() if k not in m['ignore']}))
            spell = (len(args), tuple(kwargs), op['revkeys'])
            before = len(log)
            info = {'step': step, 'method': m['name'], 'args': args, 'kwargs': kwargs, 'ctl': op['ctl'], 'source': src}
            try:
                got = getattr(obj, m['name'])(*args, **kwargs, **ctl)
            except Exception as e:
                raise Violation('call-raised', dict(info, error=repr(e)))
            ran = log[before:]
            present = mkey in model
            if op['ctl'] == 'only':
                if ran:
                    raise Violation('only_cache-executed', info)
                if present:
                    if got is tc.NO_VALUE or not strict_eq(got, model[mkey]):
                        raise Violation('only_cache-wrong-value', dict(info, got=repr(got), want=repr(model[mkey])))
                elif got is not tc.NO_VALUE:
                    raise Violation('only_cache-phantom-entry', dict(info, got=repr(got)))
            elif op['ctl'] == 'force+store':
                # forced: the supplied value replaces whatever is stored, still without calling the method
                if ran:
                    raise Violation('store_cache_value-executed', info)
                if not strict_eq(got, _store_value(op['store'])):
                    raise Violation('forced-store_cache_value-not-returned', dict(info, got=repr(got), want=repr(op['store'])))
                model[mkey] = _store_value(op['store'])
            elif op['ctl'] == 'store':
                if ran:
                    raise Violation('store_cache_value-executed', info)
                want = model[mkey] if present else _store_value(op['store'])
                if not strict_eq(got, want):
                    raise Violation('store_cache_value-wrong-value', dict(info, got=repr(got), want=repr(want)))
                model.setdefault(mkey, _store_value(op['store']))
            else:
                must_run = op['ctl'] == 'force' or not present
                if must_run:
                    if len(ran) != 1:
                        raise Violation('executions!=1-for-new-key' if not present else 'force-did-not-run-once',
                                        dict(info, executions=len(ran), model_has_key=present))
                    if ran[0][0] != m['name'] or not strict_eq(ran[0][1], binding):
                        raise Violation('wrong-bound-arguments', dict(info, received=repr(ran[0]), binding=repr(binding)))
                    want = None if m.get('returns_none') else {'m': m['name'], 'seq': len(log), 'got': binding}
                    if not strict_eq(got, want):
                        raise Violation('computed-value-wrong', dict(info, got=repr(got), want=repr(want)))
                    model[mkey] = want
                else:
                    if ran:
                        raise Violation('re-executed-same-binding', dict(info, executions=len(ran)))
                    if not strict_eq(got, model[mkey]):
                        raise Violation('stale-or-foreign-entry', dict(info, got=repr(got), want=repr(model[mkey])))
            spellings.setdefault(mkey, set()).add(spell)
            keys_per_method.setdefault(m['name'], set()).add(mkey)
            # number of entries == number of distinct keys
            n_model = len(model)
            if case['backend'] == 'json':
                n_real = len(list(tmp.rglob('*.json')))
            else:
                n_real = 0
                for mm in methods:
                    if mm['form'] == 'object':
                        n_real += len(ns['_caches'][mm['name']])
                    else:
                        sub = mm['name'] if mm['version'] is None else f'{mm["name"]}.{mm["version"]}'
                        n_real += len(obj.cache.subcache(sub))
            if n_real != n_model:
                raise Violation('entry-count', dict(info, entries=n_real, distinct_keys=n_model))
        # object churn: further short-lived objects, each with its OWN new cache - a new cache holds nothing, whatever
        # earlier objects (whose caches are gone, their addresses possibly reused) have stored
        own = [m for m in methods if m['form'] != 'object']
        if own:
            m = own[0]
            binding = m['pool'][0]
            for j in range(4):
                log2 = []
                o2 = ns['Obj'](mk(f'churn{j}'), log2)
                kw = {k: copy.deepcopy(v) for k, v in binding.items()}
                try:
                    got = getattr(o2, m['name'])(only_cache=True, **kw)
                    if got is not tc.NO_VALUE:
                        raise Violation('only_cache-phantom-entry', {'source': src, 'where': 'a new object with a new cache',
                                                                     'object': j, 'got': repr(got)})
                    got = getattr(o2, m['name'])(**kw)
                    if len(log2) != 1:
                        raise Violation('wrong-execution-count', {'source': src, 'where': 'a new object with a new cache',
                                                                  'object': j, 'executions': len(log2)})
                except Violation:
                    raise
                except Exception as e:
                    raise Violation('call-raised', {'source': src, 'where': 'a new object with a new cache',
                                                    'error': repr(e)[:300]})
                del o2
        nt = any(len(s) >= 2 for s in spellings.values()) and any(len(k) >= 2 for k in keys_per_method.values())
        cl = ['backend:' + case['backend']] + sorted({'form:' + m['form'] for m in methods})
        if any(m['ignore'] for m in methods):
            cl.append('ignore_kwargs')
        if any(m['version'] for m in methods):
            cl.append('version')
        cl += sorted({'ctl:' + op['ctl'] for op in case['ops']})
        rec.case(case, nontrivial=nt, classes=cl, sample={'source': src, 'backend': case['backend'],
                                                          'ops': case['ops'][:8],
                                                          'pools': [m['pool'] for m in methods]})
    finally:
        hyp.drop_scratch(tmp)


def plan(tier):
    q = tier == 'quick'
    return [{'kind': 'seq', 'examples': 600 if q else 20000} for _ in range(8 if q else 16)]


def run_shard(shard, seed, tier, rec):
    hyp.silence_library_logging()
    hyp.run_given(rec, cases(), lambda c: eval_case(c, rec), seed, shard['examples'], kind='seq')


def replay(doc, rec):
    eval_case(doc['case'], rec)
