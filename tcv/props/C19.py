"""C19 — Test helpers compute what the real chain computes."""
import copy
import sys
from pathlib import Path

from hypothesis import strategies as st

from tcv import build, engine, gen, hyp, model, values
from tcv.hyp import Violation
from tcv.runtime import RT, canon_param, digest_of, provenance

LEVEL = 'exploration'
RULE = (
    'A generated task family (1 module, 2-6 classes; inputs by class, by short name and by group:name, optional inputs '
    'present/absent; run arguments in permuted order or registry access by index; defaults, name_in_config, parameter '
    'objects given as definitions or as instances), a split into real and mocked tasks (mocks keyed by class or by '
    'name), parameter assignments and mock values (values of every data kind plus falsy values 0, "", [], {}, False); '
    'TestChain and create_test_task, each with a fresh or the default base_dir; invalid variants: a required input that '
    'is neither real nor mocked, a missing required parameter. Oracle (differential): a REAL chain is built for the '
    'same family in which every mocked task is replaced by a source task returning the mock value; for every real task '
    'helper value == real-chain value == reference value; the invocation log never contains a mocked task; no file or '
    'directory of a mocked task appears under base_dir; invalid variants raise when the helper is constructed. '
    'Non-trivial = >= 1 real task consuming >= 1 mock and >= 1 defaulted parameter in the family.'
)
ASSUMPTIONS = [
    'one base_dir is never reused for helpers with different assignments (helpers persist under the fixed name "test")',
    'mock values are not None (a Data object cannot hold None; the real chain could not return it either)',
]

MOCK_VALUES = [0, '', [], {}, False, 'plain', [1, 2], {'k': 'v'}, 3.5, None]


@st.composite
def cases(draw):
    prog = draw(gen.programs(max_modules=1, max_tasks=6, kinds=['dict', 'list', 'str', 'int', 'numpy', 'frame'],
                             patterns=False))
    mod = prog['modules'][0]
    concrete = [i for i, t in enumerate(mod['tasks']) if not t['abstract']]
    real = sorted(draw(st.sets(st.sampled_from(concrete), min_size=1, max_size=len(concrete))))
    needed = set()
    for i in real:
        for inp in mod['tasks'][i]['inputs']:
            if inp.get('form') in ('class', 'name', 'gname') and inp['task'] not in real:
                needed.add(inp['task'])
    extra = [i for i in concrete if i not in real and i not in needed]
    if extra and draw(st.booleans()):
        needed.add(draw(st.sampled_from(extra)))
    mocks = {}
    for i in sorted(needed):
        t = mod['tasks'][i]
        how = draw(st.sampled_from(['kind', 'kind', 'falsy', 'callable']))
        if how == 'callable':
            # a mock value that is itself callable (what a lazily generated result is: a function returning an iterator)
            val = {'kind': 'callable', 'digest': '%016x' % draw(st.integers(0, 2 ** 63))}
        elif how == 'kind':
            val = {'kind': t['kind'], 'digest': '%016x' % draw(st.integers(0, 2 ** 63))}
        else:
            val = {'raw': draw(st.sampled_from(MOCK_VALUES))}
        mocks[str(i)] = {'by': draw(st.sampled_from(['class', 'name'])), 'value': val}
    vals = {}
    for key, plist in gen.param_keys_of_module(mod).items():
        users = [p for p in plist]
        required = any('default' not in p for p in plist)
        if required or draw(st.booleans()):
            vals[key] = draw(gen.value_for(plist))
    if draw(st.integers(0, 3)) == 0:
        # a parameter object that inspects the chain it lives in (ChainObject.init_chain)
        t = mod['tasks'][draw(st.sampled_from(real))]
        if not any(p['name'] == 'co' for p in t['params']):
            t['params'].append({'name': 'co', 'cfg': None, 'ignore': False, 'dpdv': False, 'dtype': None, 'object': 'Od'})
            t.pop('sig_perm', None)
            vals['co'] = {'__object__': 'Od', 'args': [draw(st.sampled_from(['t', 'u']))], 'kwargs': {}}
    steps = draw(st.lists(st.sampled_from(['force_mock', 'force_mock_recompute', 'force_real', 'again']), max_size=3))
    case = {'program': prog, 'real': real, 'mocks': mocks, 'values': vals, 'steps': steps,
            'helper': draw(st.sampled_from(['TestChain', 'create_test_task'])),
            'instances': draw(st.booleans()), 'own_base_dir': draw(st.booleans()), 'invalid': None}
    if case['helper'] == 'create_test_task':
        case['real'] = [draw(st.sampled_from(real))]
        t = mod['tasks'][case['real'][0]]
        keep = {str(inp['task']) for inp in t['inputs'] if inp.get('form') in ('class', 'name', 'gname')}
        for k in keep:
            if k not in case['mocks']:
                tt = mod['tasks'][int(k)]
                case['mocks'][k] = {'by': 'class', 'value': {'kind': tt['kind'], 'digest': '%016x' % int(k)}}
        case['mocks'] = {k: v for k, v in case['mocks'].items() if k in keep or draw(st.booleans())}
    # a mocked class may ALSO be listed among the chain's tasks (TestChain(all_tasks_of_module, mock_tasks={Expensive: ..})):
    # it is still a mock.  Only classes without parameters (the real class is instantiated first and checks its own).
    case['also_listed'] = []
    if case['helper'] == 'TestChain':
        for k in sorted(case['mocks']):
            tt = mod['tasks'][int(k)]
            if not tt['params'] and not tt.get('abstract') and draw(st.integers(0, 2)) == 0:
                case['also_listed'].append(int(k))
    case['listed_first'] = draw(st.booleans())
    inv = draw(st.integers(0, 5))
    if inv == 0:
        # drop a mock that a real task requires
        req = [k for k in case['mocks'] if any(
            inp.get('form') in ('class', 'name', 'gname') and str(inp['task']) == k and not inp.get('optional')
            for i in case['real'] for inp in mod['tasks'][i]['inputs'])]
        if req:
            del case['mocks'][draw(st.sampled_from(sorted(req)))]
            case['invalid'] = 'missing-input'
    elif inv == 1:
        reqp = sorted({(p.get('cfg') or p['name']) for i in case['real'] for p in mod['tasks'][i]['params']
                       if 'default' not in p})
        if reqp:
            case['values'].pop(draw(st.sampled_from(reqp)), None)
            case['invalid'] = 'missing-parameter'
    case['also_listed'] = [k for k in case['also_listed'] if str(k) in case['mocks']]
    return case


def mock_value(spec, task):
    from tcv.runtime import encode
    v = spec['value']
    if 'raw' in v:
        return copy.deepcopy(v['raw'])
    if v['kind'] == 'callable':
        d = v['digest']
        return lambda: iter([d, 'tail'])
    return encode(v['kind'], v['digest'], task)


def eval_case(case, rec):
    import random
    import taskchain
    from taskchain.utils.testing import TestChain, create_test_task
    random.seed(20261001)   # what a reproducibility fixture does before every test: helpers must not share a default dir
    prog = case['program']
    mod = prog['modules'][0]
    tmp = hyp.scratch_dir('tcv-c19-')
    hyp.silence_library_logging()
    RT.reset()
    ld = build.load_program(prog)
    try:
        mp = build.module_path(prog, 0)
        pymod = sys.modules[mp]
        objs = sys.modules[build.pkg_name(prog) + '.objs']
        cls = lambda i: getattr(pymod, mod['tasks'][i]['cls'])  # noqa: E731

        def params_for_helper():
            out = {}
            for k, v in case['values'].items():
                mv = build.materialise_value(prog, v)
                if case['instances'] and isinstance(v, dict) and '__object__' in v:
                    mv = getattr(objs, v['__object__'])(*mv['args'], **mv['kwargs'])
                out[k] = mv
            return out

        mocks = {}
        for k, spec in case['mocks'].items():
            t = mod['tasks'][int(k)]
            key = cls(int(k)) if spec['by'] == 'class' else t['slug']
            mocks[key] = mock_value(spec, None)
        kw = {'base_dir': tmp / 'helper'} if case['own_base_dir'] else {}
        info = {'case': describe(case)}
        # reference: which inputs resolve to what
        ref_err = None
        try:
            ref = reference(case)
        except model.ModelError as e:
            ref_err = e
        try:
            with hyp.quiet_output():
                if case['helper'] == 'TestChain':
                    extra = [cls(i) for i in case.get('also_listed', [])]
                    listed = [cls(i) for i in case['real']]
                    listed = extra + listed if case.get('listed_first') else listed + extra
                    supplied_params = params_for_helper()
                    tc = TestChain(listed, mock_tasks=mocks, parameters=supplied_params, **kw)
                    helper_tasks = {mod['tasks'][i]['slug']: tc[mod['tasks'][i]['slug']] for i in case['real']}
                else:
                    i = case['real'][0]
                    supplied_params = params_for_helper()
                    t = create_test_task(cls(i), input_tasks=mocks, parameters=supplied_params, **kw)
                    helper_tasks = {mod['tasks'][i]['slug']: t}
                    tc = None
        except Exception as e:
            if ref_err is not None:
                rec.case(case, nontrivial=True, classes=['invalid:' + ref_err.kind, 'helper:' + case['helper']])
                return
            raise Violation('helper-construction-raised', dict(info, error=repr(e)[:300]))
        if ref_err is not None:
            raise Violation('invalid-not-reported-at-construction:' + ref_err.kind, dict(info, model_error=str(ref_err)))
        # parameter OBJECTS supplied as instances reach the task as those very objects (a helper that copies them would
        # break identity-based use: sentinels compared with `is`, objects used as keys)
        if case['instances']:
            for i in case['real']:
                spec_t = mod['tasks'][i]
                ht = helper_tasks.get(spec_t['slug'])
                if ht is None:
                    continue
                for p_ in spec_t['params']:
                    key_ = p_.get('cfg') or p_['name']
                    sv = supplied_params.get(key_)
                    if sv is not None and hasattr(sv, 'tcv_canon') and ht.params[p_['name']] is not sv:
                        raise Violation('parameter-object-not-the-supplied-instance', dict(info, task=spec_t['slug'],
                                                                                          param=p_['name']))
        # values through the helper
        got = {}
        for slug, t in helper_tasks.items():
            try:
                with hyp.quiet_output():
                    got[slug] = digest_of(t.value)
            except Exception as e:
                raise Violation('helper-value-raised', dict(info, task=slug, error=repr(e)[:300]))
        ran = [e[4] for e in RT.log]
        mocked_slugs = {mod['tasks'][int(k)]['slug'] for k in case['mocks']}
        if tc is not None:
            # a mocked task returns THE supplied value (the very object), whatever it is
            for key, supplied in mocks.items():
                slug = key if isinstance(key, str) else key.slugname
                try:
                    with hyp.quiet_output():
                        got_mock = tc[slug].value
                except Exception as e:
                    raise Violation('mock-value-raised', dict(info, task=slug, error=repr(e)[:200]))
                if got_mock is not supplied:
                    raise Violation('mock-does-not-return-the-supplied-value', dict(info, task=slug, got=repr(got_mock)[:100],
                                                                                   supplied=repr(supplied)[:100]))
        if set(ran) & mocked_slugs:
            raise Violation('mocked-task-was-run', dict(info, ran=ran))
        for slug, want in ref.items():
            if slug in got and got[slug] != want:
                raise Violation('helper-value-differs-from-reference', dict(info, task=slug, got=got[slug], want=want))
        # forcing through the helper chain: mocks keep returning the supplied value and are still never run
        if tc is not None:
            for stp in case.get('steps', []):
                before = len(RT.log)
                try:
                    with hyp.quiet_output():
                        if stp.startswith('force_mock') and mocked_slugs:
                            tc.force(sorted(mocked_slugs)[0], recompute=stp.endswith('recompute'))
                        elif stp == 'force_real':
                            tc.force(sorted(helper_tasks)[0])
                        for slug, t in helper_tasks.items():
                            if digest_of(t.value) != ref[slug]:
                                raise Violation('helper-value-differs-after-forcing', dict(info, task=slug, step=stp))
                except Violation:
                    raise
                except Exception as e:
                    raise Violation('helper-raised-after-forcing', dict(info, step=stp, error=repr(e)[:300]))
                if {e[4] for e in RT.log[before:]} & mocked_slugs:
                    raise Violation('mocked-task-was-run', dict(info, step=stp))
        base = (tmp / 'helper') if case['own_base_dir'] else Path(helper_tasks[next(iter(helper_tasks))].get_config().base_dir)
        for ms in mocked_slugs:
            # a mocked task named like a real task's group (mock `g`, real `g:h:a`) shares the directory `g/`
            # with that group; only entries that no real task's path accounts for belong to the mock
            mdir = base / ms.replace(':', '/')
            depth = len(ms.split(':'))
            shared = {s_.split(':')[depth] for s_ in helper_tasks
                      if s_ not in mocked_slugs and s_.split(':')[:depth] == ms.split(':') and len(s_.split(':')) > depth}
            if mdir.exists() and (not mdir.is_dir() or {e.name for e in mdir.iterdir()} - shared):
                raise Violation('mocked-task-persisted', dict(info, task=ms))
        # the real chain with source tasks in place of the mocks (a real task cannot return None: skipped then)
        if any(('raw' in s_['value'] and s_['value']['raw'] is None) or s_['value'].get('kind') == 'callable'
               for s_ in case['mocks'].values()):
            rec.case(case, nontrivial=False, classes=['helper:' + case['helper'], 'valid', 'mock-is-None'])
            return
        RT.reset()
        RT.mock_values = {mod['tasks'][int(k)]['slug']: mock_value(spec, None) for k, spec in case['mocks'].items()
                          if 'raw' in spec['value'] or spec['value']['kind'] in ('dict', 'list', 'str', 'int', 'numpy', 'frame')}
        real_prog = copy.deepcopy(prog)
        for k in case['mocks']:
            t = real_prog['modules'][0]['tasks'][int(k)]
            t.update({'params': [], 'inputs': [], 'kind': 'mock', 'style': 'args'})
            t.pop('sig_perm', None)
        keep = set(case['real']) | {int(k) for k in case['mocks']}
        ld2 = build.load_program(real_prog)
        try:
            mp2 = build.module_path(real_prog, 0)
            data = {'tasks': [f'{mp2}.{real_prog["modules"][0]["tasks"][i]["cls"]}' for i in sorted(keep)]}
            data.update({k: build.materialise_value(real_prog, v) for k, v in case['values'].items()})
            try:
                with hyp.quiet_output():
                    chain = taskchain.Config(tmp / 'real', name='real', data=data).chain()
                    for slug in got:
                        rv = digest_of(chain[slug].value)
                        if rv != got[slug]:
                            raise Violation('helper-value-differs-from-real-chain', dict(info, task=slug, helper=got[slug],
                                                                                         real_chain=rv))
            except Violation:
                raise
            except Exception as e:
                raise hyp.Inconclusive(f'real chain for the differential could not be built: {e!r}')
        finally:
            if ld2.pkg != ld.pkg:
                ld2.unload()
        consumes_mock = any(str(inp.get('task')) in case['mocks'] for i in case['real'] for inp in mod['tasks'][i]['inputs']
                            if inp.get('form') in ('class', 'name', 'gname'))
        defaulted = any('default' in p and (p.get('cfg') or p['name']) not in case['values']
                        for i in case['real'] for p in mod['tasks'][i]['params'])
        cl = ['helper:' + case['helper'], 'valid', 'base_dir:' + ('own' if case['own_base_dir'] else 'default')]
        if case['instances']:
            cl.append('objects-as-instances')
        if any('raw' in s['value'] for s in case['mocks'].values()):
            cl.append('falsy-or-plain-mock')
        if case.get('also_listed'):
            cl.append('mocked-class-also-listed')
        rec.case(case, nontrivial=consumes_mock and defaulted, classes=cl, sample=describe(case))
    finally:
        ld.unload()
        hyp.drop_scratch(tmp)


def reference(case):
    """{slug of real task: expected digest}; raises ModelError when helper construction must fail."""
    prog = case['program']
    mod = prog['modules'][0]
    data = {k: model.instantiate(v) for k, v in case['values'].items()}
    present = {mod['tasks'][i]['slug']: ('real', i) for i in case['real']}
    for k in case['mocks']:
        present[mod['tasks'][int(k)]['slug']] = ('mock', int(k))
    for v in data.values():
        if isinstance(v, model.Obj) and v.cls == 'Od':
            v.vals['seen'] = sorted(present)
    inst = model.Instance(0, None, None, {'values': {}}, 'test')
    mts = {}
    for i in case['real']:
        t = model.MTask(mod['tasks'][i], 0, inst)
        model.bind_params(t, data)
        mts[t.slug] = t
    vals = {}
    for k, spec in case['mocks'].items():
        mv = spec['value']
        vals[mod['tasks'][int(k)]['slug']] = digest_of(mv['raw']) if 'raw' in mv else (
            None if mv['kind'] == 'gen_empty' else mv['digest'])
    names = list(present)
    resolved = {}
    for slug, t in mts.items():
        ins = []
        seen = set()
        for idx, inp in enumerate(build.declared_inputs(t.spec)):
            text = build.input_text(prog, inp) or mod['tasks'][inp['task']]['slug']
            if text in seen:
                raise model.ModelError('duplicate-input', text)
            try:
                found = model.resolve_input(text, names)
            except model.ModelError:
                if inp.get('optional'):
                    raise model.OutOfDomain('ambiguous optional input')
                raise
            if found is not None and inp['form'] == 'class' and found != text:
                found = None
            if found is None:
                if inp.get('optional'):
                    seen.add(text)
                    continue
                raise model.ModelError('dangling-input', f'{slug} -> {text}')
            key = found if inp['form'] != 'class' else text
            if key in seen:
                raise model.OutOfDomain('two declarations resolve to one input')
            seen.add(key)
            ins.append((idx, found))
        resolved[slug] = ins

    def value(slug, stack=()):
        if slug in vals:
            return vals[slug]
        if slug in stack:
            raise model.ModelError('cycle', slug)
        t = mts[slug]
        ignored = {p['name'] for p in t.spec['params'] if p.get('ignore')}
        pv = {k: canon_param(v) for k, v in t.params.items() if k not in ignored}
        iv = [(idx, value(f, stack + (slug,))) for idx, f in resolved[slug]]
        vals[slug] = provenance(slug, pv, iv)
        return vals[slug]

    return {slug: value(slug) for slug in mts}


def describe(case):
    d = {k: v for k, v in case.items() if k != 'program'}
    d['module'] = build.module_source(case['program'], 0)
    return d


def plan(tier):
    q = tier == 'quick'
    return [{'kind': 'helpers', 'examples': 300 if q else 12000} for _ in range(8 if q else 16)]


def _own_tmp(f):
    """A helper built without base_dir makes itself a directory under the system's temporary directory and never
    removes it; for the time of a shard that is a scratch directory of the shard, dropped afterwards."""
    import tempfile
    root = hyp.scratch_dir('tcv-c19tmp-')
    before = tempfile.tempdir
    tempfile.tempdir = str(root)
    try:
        return f()
    finally:
        tempfile.tempdir = before
        hyp.drop_scratch(root)


def run_shard(shard, seed, tier, rec):
    _own_tmp(lambda: hyp.run_given(rec, cases(), lambda c: eval_case(c, rec), seed, shard['examples'], kind='helpers'))


def replay(doc, rec):
    _own_tmp(lambda: eval_case(doc['case'], rec))
