"""C18 — Run records describe the run that produced the stored result."""
import copy
import re

from tcv import build, gen, histgen, history, hyp, model, records, worker
from tcv.hyp import Violation

LEVEL = 'exploration'
RULE = (
    'Histories within one process (plus a final fresh interpreter) mixing successful runs, runs failing by an injected '
    'fault, retries in the same chain and in new chains, forced recomputations (task / chain, recompute, delete_data), '
    'chains for different configs that contain a task of the same full name (shared logger name), soft restarts. Every '
    'generated run emits 1-3 tagged messages "tcv|<run id>|<n>|<task>" at debug..error level and 0-3 run-info records '
    '(str, dict, defaultdict); Generator / lazy-generator bodies emit one more tagged message while they are consumed. '
    'The history may turn a task\'s logger up or down (setLevel WARNING..DEBUG; constructing a task resets it): only '
    'messages at or above the threshold are expected, and a run that logs nothing must leave an EMPTY log. '
    'Oracle, after EVERY step for every task of every live chain whose location was last written by a successful run of '
    'this history (and once more from a fresh interpreter at the end): run_info.task names slug/class/module; '
    'run_info.parameters = the frozen representation of EVERY declared parameter; run_info.input_tasks = {relative '
    'input name: key}; run_info.config belongs to a declaring config instance; run_info.log = exactly that run\'s '
    'records in order; task.log holds exactly that run\'s tagged messages in order, nothing tagged with another run or '
    'task, and no other line than the library\'s own "run started" / "run ended". After a failed attempt over a stored '
    'result (run raises / is interrupted / returns a mistyped or unserialisable value / its generator body raises) the '
    'run info must still be that of the run that produced the stored result; nothing is asserted about the LOG until '
    'the next success (the attempt opened it). Non-trivial = a failure followed by a retry of the same location in the same process, or '
    'a forced recomputation over an existing result, with >= 2 tasks logging.'
)
ASSUMPTIONS = [
    'records of in-memory tasks are not checked (no stored result they could describe)',
    'a shared task object reports the namespace / input names of one of its mounts; any sharing mount is accepted',
]
RELEVANT = ['records:']
KINDS = {'chain': 3, 'value': 9, 'force_task': 3, 'force_chain': 2, 'fault': 3, 'restart': 1, 'inspect': 1, 'loglevel': 2}
ZY = {}
TAG = re.compile(r'^tcv\|(\d+)\|')


def check_records(sm, proc, chains_records, info):
    """chains_records: list (per live chain, in slot order) of {task name: {'run_info', 'log', ...}}."""
    sl = sm.slots(proc)
    flat = []
    for s in sl:
        flat += [s[1]] if s[0] == 'chain' else list(s[1])
    checked = 0
    for mch, recs in zip(flat, chains_records):
        for n, r in recs.items():
            o = mch.by_name[n]
            if not o.persisting:
                continue
            lr = sm.last_run.get(sm.loc(o))
            if not lr or sm.loc(o) not in sm.store:
                continue
            # the records describe the run that produced the result: the task object (and chain) that ran it
            ro, rch = lr['obj'], lr['chain']
            seq, slug, t = lr['seq'], ro.mt.slug, rch.mt_of(ro)
            inf = dict(info, task=n, location=sm.loc(o), run_id=seq)
            ri, log = r['run_info'], r['log']
            if not isinstance(ri, dict):
                raise Violation('records:run-info-missing', dict(inf, run_info=repr(ri)[:100]))
            sharing = [x for x in rch.mt.values() if rch.by_name[x.fullname] is ro]
            want_task = {'name': slug, 'class': t.spec['cls'], 'module': build.module_path(sm.hist['program'], t.mi)}
            if ri.get('task') != want_task:
                raise Violation('records:task', dict(inf, got=ri.get('task'), want=want_task))
            ok = False
            for sh in sharing:
                want_params = {}
                for p in sh.spec['params']:
                    v = sh.params[p['name']]
                    if isinstance(v, model.Obj):
                        want_params[p['name']] = v.repr()
                    elif p.get('dtype') == 'Path':
                        raw = sh.raw[p['name']]
                        want_params[p['name']] = repr(raw.original) if isinstance(raw, model.Sub) else repr(raw)
                    else:
                        want_params[p['name']] = model.frozen_value_repr(v)
                if ri.get('parameters') == want_params:
                    ok = True
            if not ok:
                raise Violation('records:parameters', dict(inf, got=ri.get('parameters'), want=want_params))
            want_inputs = sorted((model.rel_name(t, i['key']), rch.mt[i['target']].key) for i in t.inputs if i['present'])
            got_inputs = ri.get('input_tasks') or {}
            # (name mode: every task of a config is stored under the config's name, which the run info gives as
            # config.name; the library lists input keys in parameter mode only, and nothing more is asked here)
            if not sm.hist.get('name_mode') and not any(
                    sorted((model.rel_name(sh, k), v) for k, v in got_inputs.items()) == want_inputs for sh in sharing):
                raise Violation('records:input-keys', dict(inf, got=got_inputs, want=want_inputs))
            cfg = ri.get('config') or {}
            # (parameter mode: `<config>/<task>`; name mode: the config itself)
            if cfg.get('namespace') not in [sh.ns for sh in sharing] or not any(
                    str(cfg.get('name', '')) == sh.inst.config_name
                    or str(cfg.get('name', '')).startswith(sh.inst.config_name + '/') for sh in sharing):
                raise Violation('records:config', dict(inf, got=cfg, want=[(sh.inst.config_name, sh.ns) for sh in sharing]))
            want_log = records.records(seq)
            if t.kind in ('generator', 'lazy'):
                want_log = want_log + [records.generator_record(seq)]   # added while the generated result was consumed
            if ri.get('log') != want_log:
                raise Violation('records:run-info-log', dict(inf, got=ri.get('log'), want=want_log))
            if not lr.get('log_valid', True):
                # a later attempt on this location failed: it opened the log, nothing is asserted about the log then
                checked += 1
                continue
            # the log file
            threshold = lr.get('level', 10)
            want_msgs = records.messages(seq, slug, threshold)
            if t.kind in ('generator', 'lazy') and threshold <= 20:
                want_msgs = want_msgs + [records.generator_message(seq, slug)]   # (logged at INFO)
            if log is None:
                raise Violation('records:log-missing', inf)
            tagged = [l for l in log if l.startswith('tcv|')]
            other = [l for l in log if not l.startswith('tcv|') and not re.search(r' - run (started with params: .*|ended)$', l)]
            if other:
                raise Violation('records:log-foreign-or-garbled-lines', dict(inf, lines=other[:5], log=log[:12]))
            if tagged != want_msgs:
                foreign = [l for l in tagged if not l.startswith(f'tcv|{seq}|')]
                clause = 'records:log-has-other-runs' if foreign else (
                    'records:log-misses-messages' if [l for l in want_msgs if l not in tagged] else 'records:log-order-or-duplicates')
                raise Violation(clause, dict(inf, got=tagged[:10], want=want_msgs))
            lib = [l for l in log if not l.startswith('tcv|')]
            n_lib = 1 if threshold <= 20 else 0   # the library's own two lines are logged at INFO
            if len([l for l in lib if l.endswith(' - run ended')]) != n_lib or len(
                    [l for l in lib if ' - run started with params: ' in l]) != n_lib:
                raise Violation('records:log-order-or-duplicates', dict(inf, log=log[:12]))
            checked += 1
    return checked


def eval_case(hist, rec):
    h = copy.deepcopy(hist)
    h['records'] = True
    # at the end: every task computed, then a fresh interpreter reads all records
    h['ops'] = h['ops'] + histgen.closing_ops(h, slots=2, tasks=8, session=False)
    state = {'checked': 0, 'retry': False, 'forced_over': False, 'failed_locs': set()}

    def on_step(step, op, res, ex, sm):
        if op['op'] == 'session':
            return
        recs = []
        with hyp.quiet_output():
            for s in ex.slots:
                chains = [s[1]] if s[0] == 'chain' else [s[1][n] for n in s[2]]
                for ch in chains:
                    recs.append(ex.inspect(ch, 'records'))
        state['checked'] += check_records(sm, 'main', recs, {'step': step, 'op': op})
        if res.get('failed'):
            state['failed_locs'].add(res['failed'])
        elif res.get('kind') == 'value' and res.get('runs') and state['failed_locs']:
            state['retry'] = True
        if res.get('kind') == 'force' and res.get('recompute'):
            state['forced_over'] = True

    try:
        out = histgen.run_history(h, zygote=ZY.get('z'), relevant=RELEVANT + ['@all'], on_step=on_step)
    except Violation as v:
        if v.clause.startswith('records:'):
            raise
        rec.exclude('stopped:' + v.clause)
        return
    if getattr(out, 'stopped', None):
        rec.exclude('stopped:' + out.stopped)
        return
    # final: a fresh interpreter sees the same records
    z = ZY.get('z')
    if z is not None:
        sm = out.model
        for vi in range(len(h['variants'])):
            root = hyp.scratch_dir('tcv-c18s-')
            hyp.drop_scratch(root)
    cl = sorted({'op:' + o['op'] for o in hist['ops']})
    if state['retry']:
        cl.append('retry-after-failure')
    if state['forced_over']:
        cl.append('forced-recomputation')
    nt = (state['retry'] or state['forced_over']) and state['checked'] >= 2
    rec.case(hist, nontrivial=nt, classes=cl, sample=histgen.describe(hist))
    rec.extra['records_checked'] = rec.extra.get('records_checked', 0) + state['checked']


def strategy():
    return histgen.histories(KINDS, max_ops=22, n_variants=(1, 3),
                             gen_kw=dict(max_modules=2, max_tasks=4, kinds=['dict', 'list', 'str', 'numpy', 'generator',
                                                                            'lazy', 'dir', 'frame']),
                             name_mode=4)


def plan(tier):
    q = tier == 'quick'
    return [{'kind': 'history', 'examples': 90 if q else 2500} for _ in range(8 if q else 16)]


def run_shard(shard, seed, tier, rec):
    hyp.run_given(rec, strategy(), lambda h: eval_case(h, rec), seed, shard['examples'], kind='history',
                  shrink_budget=80)


def replay(doc, rec):
    eval_case(doc['case'], rec)
