"""C15 — File caches stay consistent under concurrent use."""
import itertools

from hypothesis import strategies as st

from tcv import coop, hyp
from tcv.eq import strict_eq
from tcv.hyp import Violation

LEVEL = 'exploration'
RULE = (
    'A case = cache type (JsonCache, NumpyArrayCache, DataFrameCache), initial state of the entry (absent / populated / '
    'a truncated file left by an earlier accident), '
    '2-3 callers (real threads) each performing get, get_or_compute or get_or_compute(force=True) on ONE key, the number '
    'of chunks every write is split into (1-3, each flushed), and a SCHEDULE. The harness owns the schedule: '
    'taskchain.cache.FileLock is replaced by a subclass with real flock semantics whose acquire/release are yield points '
    '(a caller that cannot get the lock is not runnable), open() under the cache directory returns a proxy that yields '
    'after open (= truncation for "w"), after every written chunk, before every read and at close, and every computer '
    'yields; at each yield point the next runnable caller is chosen by the generated schedule. Quick: Hypothesis-drawn '
    'schedules plus a bounded depth-first enumeration of schedules for two-caller configurations; thorough: DFS with a '
    'large bound (complete where it terminates) and three callers. Computers return unique tagged values of different '
    'sizes/shapes. Oracle: no call raises; every returned value equals the COMPLETE value of one computer invocation for '
    'the key (or the initial entry); get may return NO_VALUE only if at some instant during the call no complete entry '
    'was on disk; computers never overlap and never more than one writer has the file open; at quiescence the file '
    'loads to the value of the last completed writer; a non-forced call that starts when a complete entry exists and '
    'sees no writer during the call does not compute. One case in five spreads the callers over TWO keys of one cache '
    'directory: no call fails, every returned value was computed for the caller\'s own key, at quiescence each entry is '
    'a complete value computed for its key and no temporary file is left. Non-trivial = two callers overlap and at '
    'least one of them wrote. Additionally REAL PROCESSES (2-4 forked interpreters, 1-6 operations each, real '
    'flock, values up to ~100 KB, the OS owns the schedule): the safety clauses only - no call raises, every returned '
    'value is a complete self-describing value, the final entry is complete.'
)
ASSUMPTIONS = [
    'the schedule is controlled between threads of one process; every FileLock object opens its own file description, '
    'so flock excludes threads exactly as it excludes processes',
    'reads and single write chunks are atomic; torn states arise between chunks and between open(w) and the first chunk',
    'a scheduler safety timer firing yields "inconclusive", never a violation',
    'the process races are uncontrolled (not replayable step by step); they only add real inter-process flock to what '
    'the controlled thread schedules cover',
]

OPS = ['get', 'goc', 'force']


def make_value(ctype, tag, size):
    if ctype == 'json':
        return {'tag': tag, 'pad': 'x' * size}
    if ctype == 'numpy':
        import numpy as np
        return np.full((size + 1, 2), float(abs(hash(tag)) % 997), dtype='float64')
    if ctype == 'numpy-large':
        # larger than the reader's 8 KiB buffer, different length per computation: a reader that overlaps a writer
        # really performs several raw reads
        import numpy as np
        return np.full((700 + 150 * size, 2), float(abs(hash(tag)) % 997), dtype='float64')
    import pandas as pd
    return pd.DataFrame({'tag': [tag] * (size + 1), 'n': list(range(size + 1))})


def make_cache(ctype, d):
    from taskchain import cache as tc
    return {'json': tc.JsonCache, 'numpy': tc.NumpyArrayCache, 'numpy-large': tc.NumpyArrayCache,
            'frame': tc.DataFrameCache}[ctype](d)


def eval_multikey(case, rec, count=True):
    """Callers on TWO keys of one cache directory (case['keys'][i] = key index of caller i).  The guarantee is per key,
    whatever happens to other keys meanwhile: no call fails, every returned value was produced by a computation FOR THAT
    KEY, and at quiescence every key's entry is a complete value produced for that key."""
    from taskchain import cache as tc
    hyp.silence_library_logging()
    tmp = hyp.scratch_dir('tcv-c15m-')
    try:
        ctype = case['ctype']
        cache = make_cache(ctype, tmp / 'c')
        keys = ['key-zero', 'key-one']
        produced = {0: {}, 1: {}}
        if case['populated']:
            for ki, k in enumerate(keys):
                v = make_value(ctype, f'k{ki}-initial', 3 + ki)
                cache.get_or_compute(k, lambda v=v: v)
                produced[ki]['initial'] = v
        s = coop.Sched(case.get('schedule', []), chunks=case['chunks'], segments=case.get('segments'))
        computed = {}

        def caller_fn(i, op, ki):
            def fn():
                n = [0]

                def computer():
                    n[0] += 1
                    tag = f'k{ki}-c{i}-{n[0]}'
                    s.event('compute-enter', tag=tag)
                    s.yield_point('computing')
                    v = make_value(ctype, tag, 2 + 5 * i + n[0])
                    produced[ki][tag] = v
                    computed.setdefault(i, []).append(tag)
                    s.event('compute-exit', tag=tag)
                    return v

                c = make_cache(ctype, tmp / 'c')
                s.event('call-start', op=op)
                try:
                    if op == 'get':
                        return c.get(keys[ki])
                    return c.get_or_compute(keys[ki], computer, force=(op == 'force'))
                finally:
                    s.event('call-end', op=op)
            return fn

        with coop.Patched(s, tmp):
            callers = s.run([caller_fn(i, op, case['keys'][i]) for i, op in enumerate(case['ops'])])
        info = {'case': case, 'trace': s.trace, 'choices': s.choice_log}
        for c in callers:
            op, ki = case['ops'][c.idx], case['keys'][c.idx]
            if c.error is not None:
                if isinstance(c.error, hyp.Inconclusive):
                    raise c.error
                raise Violation('call-raised', dict(info, caller=c.idx, op=op, key=keys[ki], error=repr(c.error)[:300]))
            r = c.result
            if r is tc.NO_VALUE:
                if op != 'get':
                    raise Violation('get_or_compute-returned-NO_VALUE', dict(info, caller=c.idx))
            elif not any(strict_eq(r, v) for v in produced[ki].values()):
                foreign = any(strict_eq(r, v) for v in produced[1 - ki].values())
                raise Violation('returned-value-of-another-key' if foreign else 'returned-value-no-computation-produced',
                                dict(info, caller=c.idx, op=op, key=keys[ki], got=repr(r)[:200]))
        for ki, k in enumerate(keys):
            try:
                final = make_cache(ctype, tmp / 'c').get(k)
            except Exception as e:
                raise Violation('entry-at-quiescence-unreadable', dict(info, key=k, error=repr(e)[:300]))
            if not produced[ki]:
                if final is not tc.NO_VALUE:
                    raise Violation('phantom-entry-at-quiescence', dict(info, key=k, got=repr(final)[:100]))
            elif final is tc.NO_VALUE or not any(strict_eq(final, v) for v in produced[ki].values()):
                raise Violation('entry-at-quiescence-is-not-a-value-computed-for-its-key',
                                dict(info, key=k, got=repr(final)[:200]))
        leftovers = sorted(p.name for p in (tmp / 'c').rglob('*') if p.is_file() and p.name.startswith('tmp'))
        if leftovers:
            raise Violation('temporary-files-left-at-quiescence', dict(info, files=leftovers[:5]))
        writers = {i for i in computed}
        overlap = False
        for a, b in itertools.combinations(sorted(writers), 2):
            if case['keys'][a] == case['keys'][b]:
                continue
            steps_a = [k_ for k_, (i, _) in enumerate(s.trace) if i == a]
            steps_b = [k_ for k_, (i, _) in enumerate(s.trace) if i == b]
            if steps_a and steps_b and steps_a[0] < steps_b[-1] and steps_b[0] < steps_a[-1]:
                overlap = True
        if count:
            cl = ['two-keys', 'type:' + ctype, f'chunks={case["chunks"]}', 'populated' if case['populated'] else 'empty']
            if overlap:
                cl.append('two-keys:writers-of-different-keys-overlap')
            rec.case(case, nontrivial=overlap, classes=cl,
                     key=hyp.digest([case['ctype'], case['populated'], case['ops'], case['keys'], case['chunks'],
                                     s.choice_log]), sample={'case': case, 'trace': s.trace[:60]})
        return s
    finally:
        hyp.drop_scratch(tmp)


def eval_case(case, rec, count=True):
    if case.get('keys'):
        return eval_multikey(case, rec, count)
    from taskchain import cache as tc
    hyp.silence_library_logging()
    tmp = hyp.scratch_dir('tcv-c15-')
    try:
        ctype = case['ctype']
        cache = make_cache(ctype, tmp / 'c')
        key = 'the-key'
        produced = {}
        initial = None
        if case['populated']:
            initial = make_value(ctype, 'initial', 3)
            cache.get_or_compute(key, lambda: initial)
            produced['initial'] = initial
        damaged = bool(case.get('damaged')) and case['populated']
        if damaged:
            # the entry on disk is a truncated one (left by some earlier accident): nobody may return it
            fp = cache.filepath(key)
            raw = fp.read_bytes()
            fp.write_bytes(raw[:max(1, len(raw) // 2)])
            del produced['initial']
        if case.get('stale_tmp'):
            # a temporary file left by a writer that was killed between writing and renaming (harmless in itself)
            fp_ = cache.filepath(key)
            fp_.with_name('tmp_' + fp_.name).write_bytes(b'x' * 5000)
        s = coop.Sched(case.get('schedule', []), chunks=case['chunks'], segments=case.get('segments'))
        computes = {}

        def caller_fn(i, op):
            def fn():
                n = [0]

                def computer():
                    n[0] += 1
                    tag = f'c{i}-{n[0]}'
                    s.event('compute-enter', tag=tag)
                    if s.in_compute > 0:
                        s.event('VIOLATION-two-computers-at-once', tag=tag)
                    s.in_compute += 1
                    s.yield_point('computing')
                    s.in_compute -= 1
                    v = make_value(ctype, tag, 2 + 5 * i + n[0])
                    produced[tag] = v
                    computes.setdefault(i, []).append(tag)
                    s.event('compute-exit', tag=tag)
                    return v

                c = make_cache(ctype, tmp / 'c')
                s.event('call-start', op=op)
                try:
                    if op == 'get':
                        return c.get(key)
                    return c.get_or_compute(key, computer, force=(op == 'force'))
                finally:
                    s.event('call-end', op=op)
            return fn

        with coop.Patched(s, tmp):
            callers = s.run([caller_fn(i, op) for i, op in enumerate(case['ops'])])
        info = {'case': case, 'trace': s.trace, 'choices': s.choice_log}
        ev = s.events
        for e in ev:
            if e['kind'].startswith('VIOLATION'):
                raise Violation(e['kind'].replace('VIOLATION-', ''), dict(info, event=e))
        # completeness timeline of THE ENTRY (the final path of the key); writes to other names (temporary files that
        # are renamed into place) do not make the entry incomplete
        final_path = str(cache.filepath(key))
        state = ('incomplete' if damaged else 'complete') if case['populated'] else 'absent'
        timeline = [(0, state, 'initial' if case['populated'] and not damaged else None)]
        writer_tag = {}
        wrote_tag_at = {}
        last_complete = 'initial' if case['populated'] and not damaged else None
        for e in ev:
            if e['kind'] == 'compute-exit':
                writer_tag[e['caller']] = e['tag']
            if e['kind'] == 'file-truncated' and e.get('path') == final_path:
                timeline.append((e['t'], 'incomplete', None))
            if e['kind'] == 'file-write-closed':
                if e.get('path') == final_path:
                    last_complete = writer_tag.get(e['caller'])
                    timeline.append((e['t'], 'complete', last_complete))
                else:
                    wrote_tag_at[e.get('path')] = writer_tag.get(e['caller'])
            if e['kind'] == 'entry-replaced' and e.get('path') == final_path:
                last_complete = wrote_tag_at.get(e.get('src'), writer_tag.get(e['caller']))
                timeline.append((e['t'], 'complete', last_complete))

        def states_during(t0, t1):
            out = set()
            cur = timeline[0][1]
            for t, st_, _ in timeline:
                if t <= t0:
                    cur = st_
            out.add(cur)
            for t, st_, _ in timeline:
                if t0 < t <= t1:
                    out.add(st_)
            return out

        spans = {}
        for e in ev:
            if e['kind'] == 'call-start':
                spans[e['caller']] = [e['t'], None]
            if e['kind'] == 'call-end':
                spans[e['caller']][1] = e['t']
        overlap = False
        wrote = {e['caller'] for e in ev if e['kind'] == 'file-write-closed'}
        others_truncated_final = [e for e in ev if e['kind'] == 'file-truncated' and e.get('path') == final_path]
        for c in callers:
            op = case['ops'][c.idx]
            if c.error is not None:
                if isinstance(c.error, hyp.Inconclusive):
                    raise c.error
                raise Violation('call-raised', dict(info, caller=c.idx, op=op, error=repr(c.error)[:300]))
            t0, t1 = spans[c.idx]
            r = c.result
            if r is tc.NO_VALUE:
                if op != 'get':
                    raise Violation('get_or_compute-returned-NO_VALUE', dict(info, caller=c.idx))
                if states_during(t0, t1) == {'complete'}:
                    raise Violation('get-missed-a-complete-entry', dict(info, caller=c.idx))
            else:
                if not any(strict_eq(r, v) for v in produced.values()):
                    raise Violation('returned-value-no-computation-produced', dict(info, caller=c.idx, op=op,
                                                                                   got=repr(r)[:200]))
            if op == 'goc' and states_during(t0, t1) == {'complete'} and computes.get(c.idx):
                # complete entry during the whole call and nobody wrote meanwhile: must not recompute
                others_wrote = any(e['kind'] in ('file-truncated', 'entry-replaced') and t0 <= e['t'] <= t1 for e in ev)
                if not others_wrote:
                    raise Violation('recomputed-although-complete-entry', dict(info, caller=c.idx))
            if op == 'goc' and computes.get(c.idx):
                # a call that starts after another (computing) call for the key has returned does not recompute
                earlier_done = [o for o in callers if o.idx != c.idx and spans[o.idx][1] < t0 and (
                    computes.get(o.idx) or case['ops'][o.idx] != 'get')]
                forced_overlap = any(case['ops'][o.idx] == 'force' and spans[o.idx][0] < t1 and spans[o.idx][1] > t0
                                     for o in callers if o.idx != c.idx)
                if earlier_done and not forced_overlap and any(
                        o.result is not tc.NO_VALUE for o in earlier_done):
                    raise Violation('recomputed-after-another-call-returned', dict(info, caller=c.idx))
            if op == 'force' and len(computes.get(c.idx, [])) != 1:
                raise Violation('force-did-not-compute-once', dict(info, caller=c.idx, computes=computes.get(c.idx)))
        for a, b in itertools.combinations(spans, 2):
            if spans[a][0] < spans[b][1] and spans[b][0] < spans[a][1]:
                # strictly interleaved?
                steps_a = [k for k, (i, _) in enumerate(s.trace) if i == a]
                steps_b = [k for k, (i, _) in enumerate(s.trace) if i == b]
                if steps_a and steps_b and steps_a[0] < steps_b[-1] and steps_b[0] < steps_a[-1]:
                    if a in wrote or b in wrote:
                        overlap = True
        # quiescence
        final = make_cache(ctype, tmp / 'c').get(key)
        if last_complete is None and damaged:
            if final is not tc.NO_VALUE:
                raise Violation('damaged-entry-returned-at-quiescence', dict(info, got=repr(final)[:100]))
        elif last_complete is None:
            if final is not tc.NO_VALUE:
                raise Violation('phantom-entry-at-quiescence', dict(info, got=repr(final)[:100]))
        else:
            if final is tc.NO_VALUE or not strict_eq(final, produced[last_complete]):
                raise Violation('entry-at-quiescence-is-not-the-last-complete-write', dict(
                    info, last_writer=last_complete, got=repr(final)[:200]))
        if count:
            cl = ['type:' + ctype, 'ops:' + '+'.join(sorted(case['ops'])), f'chunks={case["chunks"]}',
                  ('damaged' if damaged else 'populated') if case['populated'] else 'empty']
            if overlap:
                cl.append('overlap-with-writer')
            cl.append('schedule:segments' if case.get('segments') is not None else 'schedule:choices')
            if case.get('stale_tmp'):
                cl.append('stale-temporary-file')
            rec.case(case, nontrivial=overlap, classes=cl, key=hyp.digest([case['ctype'], case['populated'], case['ops'],
                                                                           case['chunks'], s.choice_log]),
                     sample={'case': case, 'trace': s.trace[:60]})
        return s
    finally:
        hyp.drop_scratch(tmp)


@st.composite
def cases(draw, n_callers=(2, 3)):
    n = draw(st.integers(*n_callers))
    if draw(st.integers(0, 4)) == 0:
        # callers spread over two keys of one cache directory
        ks = draw(st.lists(st.integers(0, 1), min_size=n, max_size=n).filter(lambda l: len(set(l)) == 2))
        return {
            'ctype': draw(st.sampled_from(['json', 'numpy', 'frame'])),
            'populated': draw(st.booleans()),
            'ops': [draw(st.sampled_from(['goc', 'goc', 'force', 'get'])) for _ in range(n)],
            'keys': ks,
            'chunks': draw(st.integers(1, 3)),
            'segments': draw(st.lists(st.tuples(st.integers(0, n - 1), st.integers(1, 16)).map(list), min_size=2,
                                      max_size=8)),
        }
    if draw(st.booleans()):
        # preemption-bounded schedule: a few long uninterrupted segments (reaches deep interleavings that uniformly
        # random choices practically never produce)
        return {
            'ctype': draw(st.sampled_from(['json', 'json', 'numpy', 'frame', 'numpy-large'])),
            'populated': draw(st.booleans()),
            'damaged': draw(st.integers(0, 3)) == 0,
            'stale_tmp': draw(st.integers(0, 3)) == 0,
            'ops': [draw(st.sampled_from(OPS)) for _ in range(n)],
            'chunks': draw(st.integers(1, 3)),
            'segments': draw(st.lists(st.tuples(st.integers(0, n - 1), st.integers(1, 16)).map(list), min_size=2,
                                      max_size=8)),
        }
    return {
        'ctype': draw(st.sampled_from(['json', 'json', 'numpy', 'frame', 'numpy-large', 'numpy-large'])),
        'populated': draw(st.booleans()),
        'damaged': draw(st.integers(0, 3)) == 0,
        'stale_tmp': draw(st.integers(0, 3)) == 0,
        'ops': [draw(st.sampled_from(OPS)) for _ in range(n)],
        'chunks': draw(st.integers(1, 3)),
        'schedule': draw(st.lists(st.integers(0, 2), min_size=60, max_size=90)),
    }


def dfs(config, rec, limit):
    """Depth-first enumeration of schedules of one configuration (stateless re-execution)."""
    prefix = []
    n = 0
    complete = False
    while n < limit:
        case = dict(config, schedule=list(prefix))
        try:
            s = eval_case(case, rec)
        except Violation as v:
            rec.evaluations += 1
            rec.fail_now(case, v, kind='dfs')
            return n, False
        except hyp.Inconclusive as e:
            rec.inconclusive.append(str(e))
            return n, False
        n += 1
        log = s.choice_log
        # next schedule: increment the deepest choice that still has an alternative
        k = len(log) - 1
        while k >= 0 and log[k][1] + 1 >= log[k][0]:
            k -= 1
        if k < 0:
            complete = True
            break
        prefix = [c for _, c in log[:k]] + [log[k][1] + 1]
    return n, complete


# ---- real processes (uncontrolled schedule, safety oracle only) --------------------------------------------------

def _selfcheck(ctype, v):
    """Is v a COMPLETE value some computer produced?  Values carry their own size, so a torn or stitched value shows."""
    if ctype == 'json':
        return isinstance(v, dict) and set(v) == {'tag', 'n', 'pad'} and v['pad'] == 'x' * v['n']
    import numpy as np
    return isinstance(v, np.ndarray) and v.ndim == 2 and v.shape[0] >= 1 and bool((v == float(v.shape[0])).all())


def _proc_value(ctype, tag, n):
    if ctype == 'json':
        return {'tag': tag, 'n': n, 'pad': 'x' * n}
    import numpy as np
    return np.full((n, 3), float(n), dtype='float64')


def _proc_worker(ctype, directory, ops, wid):
    """Child process: performs its operations on the shared key with the REAL FileLock; returns what it saw."""
    out = []
    from taskchain import cache as tc
    hyp.silence_library_logging()
    c = {'json': tc.JsonCache, 'numpy': tc.NumpyArrayCache}[ctype](directory)
    for k, (op, n) in enumerate(ops):
        tag = f'p{wid}-{k}'
        try:
            if op == 'get':
                r = c.get('the-key')
            else:
                r = c.get_or_compute('the-key', lambda: _proc_value(ctype, tag, n), force=(op == 'force'))
            if r is tc.NO_VALUE:
                out.append([op, 'NO_VALUE'])
            else:
                out.append([op, 'ok' if _selfcheck(ctype, r) else 'BROKEN:' + repr(r)[:200]])
        except BaseException as e:  # noqa
            out.append([op, 'RAISED:' + repr(e)[:300]])
    return out


def eval_processes(case, rec):
    """2-4 forked processes hammer one key with real flock; the OS owns the schedule.  Safety clauses only."""
    import json as _json
    import os as _os
    import select
    from taskchain import cache as tc
    tmp = hyp.scratch_dir('tcv-c15p-')
    try:
        (tmp / 'c').mkdir()
        start_r, start_w = _os.pipe()      # closed by the parent when every child exists: a common starting gun
        kids = []
        for wid, ops in enumerate(case['workers']):
            r, w = _os.pipe()
            pid = _os.fork()
            if pid == 0:
                code = 0
                try:
                    _os.close(r)
                    _os.close(start_w)
                    _os.read(start_r, 1)
                    out = _proc_worker(case['ctype'], str(tmp / 'c'), ops, wid)
                    _os.write(w, _json.dumps(out).encode())
                except BaseException:  # noqa
                    code = 3
                finally:
                    _os._exit(code)
            _os.close(w)
            kids.append((pid, r))
        _os.close(start_r)
        _os.close(start_w)
        results = []
        for pid, r in kids:
            buf = b''
            while True:
                ready, _, _ = select.select([r], [], [], 120)
                if not ready:
                    for q, _ in kids:
                        try:
                            _os.kill(q, 9)
                        except OSError:
                            pass
                    raise hyp.Inconclusive('a cache process did not answer within 120 s')
                chunk = _os.read(r, 65536)
                if not chunk:
                    break
                buf += chunk
            _os.close(r)
            _os.waitpid(pid, 0)
            if not buf:
                raise hyp.Inconclusive('a cache process died without reporting')
            results.append(_json.loads(buf))
        info = {'case': case, 'results': results}
        for wid, res in enumerate(results):
            for op, r in res:
                if r.startswith('RAISED'):
                    raise Violation('call-raised', dict(info, process=wid, op=op, error=r))
                if r.startswith('BROKEN'):
                    raise Violation('returned-value-no-computation-produced', dict(info, process=wid, op=op, got=r))
                if r == 'NO_VALUE' and op != 'get':
                    raise Violation('get_or_compute-returned-NO_VALUE', dict(info, process=wid))
        wrote = any(op != 'get' for ops in case['workers'] for op, _ in ops)
        final = {'json': tc.JsonCache, 'numpy': tc.NumpyArrayCache}[case['ctype']](tmp / 'c').get('the-key')
        if wrote and (final is tc.NO_VALUE or not _selfcheck(case['ctype'], final)):
            raise Violation('entry-at-quiescence-is-not-the-last-complete-write', dict(info, got=repr(final)[:200]))
        rec.case(case, nontrivial=wrote and len(case['workers']) >= 2,
                 classes=['processes', f'processes:n={len(case["workers"])}', 'type:' + case['ctype']],
                 sample={'case': case, 'results': results})
    finally:
        hyp.drop_scratch(tmp)


@st.composite
def process_cases(draw):
    n = draw(st.integers(2, 4))
    op = st.tuples(st.sampled_from(['goc', 'goc', 'force', 'force', 'get']), st.integers(1, 4000)).map(list)
    return {'processes': True, 'ctype': draw(st.sampled_from(['json', 'numpy'])),
            'workers': [draw(st.lists(op, min_size=1, max_size=6)) for _ in range(n)]}


def plan(tier):
    q = tier == 'quick'
    shards = [{'kind': 'random', 'examples': 900 if q else 12000} for _ in range(6 if q else 8)]
    shards += [{'kind': 'processes', 'examples': 60 if q else 1000} for _ in range(1 if q else 4)]
    configs = []
    for ctype in (['json'] if q else ['json', 'numpy', 'frame']):
        for populated in (False, True):
            for ops in itertools.combinations_with_replacement(OPS, 2):
                for chunks in ((1,) if q else (1, 2)):
                    configs.append({'ctype': ctype, 'populated': populated, 'ops': list(ops), 'chunks': chunks})
    per = 8
    for k in range(0, len(configs), (len(configs) + per - 1) // per):
        shards.append({'kind': 'dfs', 'configs': configs[k:k + (len(configs) + per - 1) // per],
                       'limit': 120 if q else 60000})
    return shards


def run_shard(shard, seed, tier, rec):
    hyp.silence_library_logging()
    if shard['kind'] == 'processes':
        # the OS schedules: a failure may not reproduce, so nothing is shrunk (the first failing case is the replay)
        hyp.run_given(rec, process_cases(), lambda c: eval_processes(c, rec), seed, shard['examples'], kind='processes',
                      shrink=False)
    elif shard['kind'] == 'random':
        hyp.run_given(rec, cases(), lambda c: eval_case(c, rec), seed, shard['examples'], kind='schedule',
                      shrink_budget=150)
    else:
        for cfg in shard['configs']:
            n, complete = dfs(cfg, rec, shard['limit'])
            rec.mark_exhaustive('two-caller-schedules:' + cfg['ctype'] + ':' + '+'.join(cfg['ops']) + (
                ':populated' if cfg['populated'] else ':empty') + f':chunks={cfg["chunks"]}', n, complete)


def replay(doc, rec):
    if doc['case'].get('processes'):
        for _ in range(20):   # uncontrolled schedule: try the configuration a number of times
            eval_processes(doc['case'], rec)
        return
    eval_case(doc['case'], rec)
