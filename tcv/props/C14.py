"""C14 — File caches return the value for the key, or recompute."""
import shutil

from hypothesis import strategies as st
from hypothesis.extra import numpy as hnp

from tcv import hyp, values
from tcv.eq import strict_eq
from tcv.hyp import Violation

LEVEL = 'exploration'
RULE = (
    'A case = a cache type (JsonCache allow_nones on/off, NumpyArrayCache, DataFrameCache, InMemoryCache) and a sequence '
    'of 3-30 operations over 1-4 keys (any unicode text incl. empty/NUL/astral/long) and sub-cache paths (nested; names '
    'that look like hash-prefix directories): get, get_or_compute, get_or_compute(force=True), a computer that raises, a '
    'computer returning None (top-level JSON caches), re-open on the same directory, and DAMAGE of a stored entry\'s '
    'file: delete, empty, truncate to a generated strict prefix, overwrite with unparseable bytes, copy another key\'s '
    'file over it (JSON: key mismatch). Exhaustive part: for generated values of every file cache type, EVERY strict '
    'prefix of the written file (files <= 400 bytes; larger: all of the first 64, every 7th, and the last 64). Oracle: '
    'dictionary model per (sub-cache path, key) predicting the return value, the number of computer calls and the '
    'exception of every operation. Non-trivial = a damage step followed by a read of that key, or a key mismatch, or a '
    'failing computer followed by a read of that key.'
)
ASSUMPTIONS = [
    '"corrupt" means content the loader rejects (empty, a strict prefix of a written entry, unparseable bytes); a bit '
    'flip that yields another well-formed entry is undetectable without checksums and is not claimed',
    'None-returning computers are used with top-level caches only (FileCache.subcache builds children with default '
    'arguments; the statement is silent on allow_nones inheritance)',
    'single-threaded use (concurrency is C15)',
]

KEYS = st.one_of(
    st.sampled_from(['', 'k', 'K', 'k ', 'a/b', '\x00', 'ключ', '\U0001F600', 'x' * 300, '{"key": 1}', 'k\n']),
    # canonically equivalent but DIFFERENT strings (composed / decomposed): two keys
    st.sampled_from(['caf\u00e9', 'cafe\u0301', '\u00c5', 'A\u030a', '\u212b']),
    st.text(alphabet=st.characters(blacklist_categories=('Cs',)), max_size=8),
)
SUBNAMES = ['s', 't', 'a/b', '0a1b2', 'k', 'c/b', 'a/k', 's/t']
GARBAGE = [b'\x00\x00\x00', b'{"key":', b'\xff\xfe\xfd', b'not a cache file', b'\x93NUMPY\x01\x00', b'\x80\x04\x95',
           b'[1, 2', b'{}', b'1', b'null']
CTYPES = ['json', 'json_nonones', 'numpy', 'frame', 'memory']

def _object_array(rows):
    import numpy as np
    a = np.empty(len(rows), dtype=object)
    for i, r in enumerate(rows):
        a[i] = r
    return a


np_values = st.one_of(
    # ragged / mixed rows: an object array (NumpyArrayCache loads with allow_pickle=True, so it is in its domain)
    st.lists(st.one_of(st.lists(st.integers(-3, 3), max_size=3), st.none(), st.text(max_size=2)), min_size=1,
             max_size=3).map(_object_array),
    hnp.arrays(dtype=st.sampled_from(['int64', 'float64', 'bool', 'uint8', '<U3', 'S2', 'int16', 'complex128']),
               shape=hnp.array_shapes(min_dims=0, max_dims=3, min_side=0, max_side=3)),
)


def _frame(cols, rows, salt):
    import pandas as pd
    data = {}
    for i, c in enumerate(cols):
        kind = (i + salt) % 3
        if kind == 0:
            data[c] = [salt + r for r in range(rows)]
        elif kind == 1:
            data[c] = [0.5 * (salt + r) for r in range(rows)]
        else:
            data[c] = [f's{salt}{r}' for r in range(rows)]
    return pd.DataFrame(data)


frame_values = st.builds(_frame, st.lists(st.sampled_from(['a', 'b', 'c', 'x y']), min_size=0, max_size=3, unique=True),
                         st.integers(0, 4), st.integers(0, 50))


def value_strategy(ctype):
    if ctype in ('json', 'json_nonones', 'memory'):
        return values.json_values(text=values.TEXT_FULL, max_leaves=8).filter(lambda v: v is not None)
    if ctype == 'numpy':
        return np_values
    return frame_values


def _enc(ctype, v):
    """JSON form of a value for the replay file."""
    if ctype == 'numpy':
        if v.dtype == object:
            return {'dtype': 'object', 'rows': v.tolist()}
        return {'dtype': str(v.dtype), 'shape': list(v.shape), 'data': v.tolist()}
    if ctype == 'frame':
        return {'cols': {str(c): v[c].tolist() for c in v.columns}}
    return v


def _dec(ctype, e):
    if ctype == 'numpy':
        import numpy as np
        if e['dtype'] == 'object':
            return _object_array(e['rows'])
        return np.array(e['data'], dtype=e['dtype']).reshape(e['shape'])
    if ctype == 'frame':
        import pandas as pd
        return pd.DataFrame(e['cols'])
    return e


def _pk(case, path):
    """Identity of a sub-cache: for file caches the directory it denotes (subcache('a/b') IS subcache('a').subcache('b')),
    for the in-memory cache the chain of names."""
    if case['ctype'] == 'memory':
        return tuple(path)
    return tuple('/'.join(path).split('/')) if path else ()


@st.composite
def cases(draw):
    ctype = draw(st.sampled_from(CTYPES))
    vs = value_strategy(ctype)
    keys = draw(st.lists(KEYS, min_size=1, max_size=4, unique=True))
    paths = [[]] + draw(st.lists(st.lists(st.sampled_from(SUBNAMES), min_size=1, max_size=2), max_size=2))
    ops = []
    kinds = ['get', 'goc', 'goc', 'force', 'raise', 'reopen', 'damage', 'damage']
    if ctype in ('json', 'json_nonones'):
        kinds.append('none')
    for _ in range(draw(st.integers(3, 30))):
        kind = draw(st.sampled_from(kinds))
        op = {'op': kind, 'key': draw(st.integers(0, len(keys) - 1)), 'path': draw(st.integers(0, len(paths) - 1)),
              'root': draw(st.sampled_from([0, 0, 1]))}
        if kind in ('goc', 'force'):
            op['value'] = _enc(ctype, draw(vs))
        if kind == 'raise':
            op['force'] = draw(st.booleans())
        if kind == 'none':
            op['path'] = 0
            op['force'] = draw(st.booleans())
        if kind == 'damage':
            op['how'] = draw(st.sampled_from(['delete', 'empty', 'truncate', 'truncate', 'garbage', 'cross', 'cross']))
            op['frac'] = draw(st.integers(0, 1000))
            op['garbage'] = draw(st.integers(0, len(GARBAGE) - 1))
            op['other'] = draw(st.integers(0, len(keys) - 1))
        ops.append(op)
    return {'ctype': ctype, 'keys': keys, 'paths': paths, 'ops': ops}


class _Boom(Exception):
    pass


def _make(tc, ctype, d):
    if ctype == 'json':
        return tc.JsonCache(d)
    if ctype == 'json_nonones':
        return tc.JsonCache(d, allow_nones=False)
    if ctype == 'numpy':
        return tc.NumpyArrayCache(d)
    if ctype == 'frame':
        return tc.DataFrameCache(d)
    return tc.InMemoryCache()


def _sub(cache, path):
    for name in path:
        cache = cache.subcache(name)
    return cache


ABSENT = object()
MISMATCH = object()


def eval_case(case, rec):
    from taskchain import cache as tc
    ctype = case['ctype']
    is_file = ctype != 'memory'
    tmp = hyp.scratch_dir('tcv-c14-')
    try:
        # two independent root caches (different directories): same sub-cache names and keys in both are unrelated entries
        roots = [_make(tc, ctype, tmp / 'cache'), _make(tc, ctype, tmp / 'cache_b')]
        model = {}
        flags = {'damage_pending': set(), 'raise_pending': set(), 'nontrivial': False}
        classes = {'type:' + ctype}
        for step, op in enumerate(case['ops']):
            key = case['keys'][op['key']]
            path = case['paths'][op['path']]
            ri = op.get('root', 0)
            root = roots[ri]
            mk = (ri, _pk(case, path), key)
            cur = model.get(mk, ABSENT)
            info = {'step': step, 'op': op, 'key': key, 'path': path, 'ctype': ctype}
            kind = op['op']
            if kind == 'reopen':
                if is_file:
                    roots = [_make(tc, ctype, tmp / 'cache'), _make(tc, ctype, tmp / 'cache_b')]
                    classes.add('reopen')
                continue
            cache = _sub(root, path)
            if kind == 'damage':
                if not is_file or cur is ABSENT or cur is MISMATCH:
                    continue
                fp = cache.filepath(key)
                if not fp.exists():
                    raise Violation('stored-entry-has-no-file', info)
                raw = fp.read_bytes()
                how = op['how']
                if how == 'cross':
                    ok = case['keys'][op['other']]
                    other = model.get((ri, _pk(case, path), ok), ABSENT)
                    if ok == key or other is ABSENT or other is MISMATCH or not ctype.startswith('json'):
                        continue
                    shutil.copyfile(cache.filepath(ok), fp)
                    model[mk] = MISMATCH
                    flags['damage_pending'].add(mk)
                    classes.add('damage:key-mismatch')
                    continue
                if how == 'delete':
                    fp.unlink()
                elif how == 'empty':
                    fp.write_bytes(b'')
                elif how == 'truncate':
                    n = (op['frac'] * len(raw)) // 1001  # strict prefix: 0 <= n < len(raw)
                    fp.write_bytes(raw[:n])
                else:
                    fp.write_bytes(GARBAGE[op['garbage']])
                model.pop(mk, None)
                flags['damage_pending'].add(mk)
                classes.add('damage:' + how)
                continue

            calls = []
            if kind in ('goc', 'force'):
                new = _dec(ctype, op['value'])

                def computer(new=new):
                    calls.append(1)
                    return new
            elif kind == 'raise':
                def computer():
                    calls.append(1)
                    raise _Boom('computer failed')
            elif kind == 'none':
                def computer():
                    calls.append(1)
                    return None
            force = kind == 'force' or bool(op.get('force'))
            got, err = None, None
            try:
                if kind == 'get':
                    got = cache.get(key)
                else:
                    got = cache.get_or_compute(key, computer, force=force)
            except _Boom as e:
                err = e
            except tc.CacheException as e:
                err = e
            except Exception as e:
                raise Violation('unexpected-exception', dict(info, error=repr(e), model_state=_st(cur)))
            if mk in flags['damage_pending'] or mk in flags['raise_pending']:
                flags['nontrivial'] = True
                flags['damage_pending'].discard(mk)
                flags['raise_pending'].discard(mk)
            info['model_state'] = _st(cur)
            info['got'] = repr(got)[:200]
            info['error'] = repr(err)
            info['computer_calls'] = len(calls)

            if kind == 'get':
                if cur is MISMATCH:
                    if not isinstance(err, tc.CacheException):
                        raise Violation('key-mismatch-not-reported', info)
                elif err is not None:
                    raise Violation('get-raised', info)
                elif cur is ABSENT:
                    if got is not tc.NO_VALUE:
                        raise Violation('get-returned-value-for-absent-or-damaged-entry', info)
                elif not strict_eq(got, cur):
                    raise Violation('get-wrong-value', dict(info, want=repr(cur)[:200]))
                continue

            will_load = cur is not ABSENT and not force
            if will_load and cur is MISMATCH:
                if not isinstance(err, tc.CacheException) or calls:
                    raise Violation('key-mismatch-not-reported', info)
                continue
            if will_load:
                if err is not None or calls:
                    raise Violation('recomputed-or-raised-although-stored-intact', info)
                if not strict_eq(got, cur):
                    raise Violation('wrong-value-for-key', dict(info, want=repr(cur)[:200]))
                continue
            # must compute exactly once
            if len(calls) != 1:
                raise Violation('computer-calls!=1', info)
            if kind == 'raise':
                if not isinstance(err, _Boom):
                    raise Violation('computer-exception-not-propagated', info)
                # a computation that raises stores nothing: the entry is as it was (forced: the old value may stay)
                flags['raise_pending'].add(mk)
                classes.add('failing-computer')
                continue
            if kind == 'none':
                classes.add('none-value')
                if ctype == 'json_nonones':
                    if not isinstance(err, tc.CacheException):
                        raise Violation('none-accepted-although-disallowed', info)
                    flags['raise_pending'].add(mk)
                    continue
                if err is not None or got is not None:
                    raise Violation('none-value-mishandled', info)
                model[mk] = None
                continue
            if err is not None:
                raise Violation('compute-raised', info)
            if not strict_eq(got, new):
                raise Violation('computed-value-not-returned', dict(info, want=repr(new)[:200]))
            model[mk] = new
        # final sweep on a re-opened cache: every model entry is served by get, every absent one is NO_VALUE
        if is_file:
            roots = [_make(tc, ctype, tmp / 'cache'), _make(tc, ctype, tmp / 'cache_b')]
        for ri, pi, path in [(r_, i_, p_) for r_ in (0, 1) for i_, p_ in enumerate(case['paths'])]:
            cache = _sub(roots[ri], path)
            for key in case['keys']:
                cur = model.get((ri, _pk(case, path), key), ABSENT)
                info = {'step': 'final', 'key': key, 'path': path, 'root': ri, 'ctype': ctype, 'model_state': _st(cur)}
                try:
                    got = cache.get(key)
                except tc.CacheException:
                    if cur is MISMATCH:
                        continue
                    raise Violation('final-get-raised', info)
                except Exception as e:
                    raise Violation('unexpected-exception', dict(info, error=repr(e)))
                if cur is MISMATCH:
                    raise Violation('key-mismatch-not-reported', info)
                if cur is ABSENT:
                    if got is not tc.NO_VALUE and ctype != 'json_nonones':
                        raise Violation('final-phantom-entry', dict(info, got=repr(got)[:200]))
                    if got is not tc.NO_VALUE and ctype == 'json_nonones':
                        raise Violation('final-phantom-entry', dict(info, got=repr(got)[:200]))
                elif not strict_eq(got, cur):
                    raise Violation('final-wrong-value', dict(info, got=repr(got)[:200], want=repr(cur)[:200]))
        if len(case['paths']) > 1:
            classes.add('subcaches')
        if any(op.get('root') for op in case['ops']):
            classes.add('two-root-caches')
        rec.case(case, nontrivial=flags['nontrivial'], classes=sorted(classes))
    finally:
        hyp.drop_scratch(tmp)


def _st(cur):
    return 'absent' if cur is ABSENT else ('key-mismatch' if cur is MISMATCH else 'stored')


# ---- every truncation ------------------------------------------------------------------------

def eval_truncations(case, rec):
    from taskchain import cache as tc
    ctype = case['ctype']
    value = _dec(ctype, case['value'])
    key = case['key']
    tmp = hyp.scratch_dir('tcv-c14t-')
    try:
        cache = _make(tc, ctype, tmp / 'c')
        cache.get_or_compute(key, lambda: value)
        fp = cache.filepath(key)
        raw = fp.read_bytes()
        L = len(raw)
        if L <= 400:
            lens = list(range(L))
        else:
            lens = sorted(set(list(range(64)) + list(range(64, L - 64, 7)) + list(range(L - 64, L))))
        n = 0
        for n_bytes in lens:
            fp.write_bytes(raw[:n_bytes])
            info = {'ctype': ctype, 'key': key, 'file_len': L, 'prefix_len': n_bytes, 'value': case['value']}
            c2 = _make(tc, ctype, tmp / 'c')
            try:
                got = c2.get(key)
            except Exception as e:
                raise Violation('truncated-get-raised', dict(info, error=repr(e)))
            if got is not tc.NO_VALUE:
                raise Violation('truncated-file-returned-as-value', dict(info, got=repr(got)[:200]))
            calls = []
            marker = _dec(ctype, case['value2'])
            try:
                got = c2.get_or_compute(key, lambda: (calls.append(1), marker)[1])
            except Exception as e:
                raise Violation('truncated-goc-raised', dict(info, error=repr(e)))
            if len(calls) != 1 or not strict_eq(got, marker):
                raise Violation('truncated-file-not-recomputed', dict(info, calls=len(calls), got=repr(got)[:200]))
            if not strict_eq(c2.get(key), marker):
                raise Violation('recomputed-value-not-stored', info)
            n += 1
        rec.count(n, classes=['truncations', 'type:' + ctype])
        rec.nontrivial.add(hyp.digest(case))
        rec.mark_exhaustive('all_strict_prefixes_of_written_entries', n, L <= 400)
        if len(rec.samples) < 3:
            rec.samples.append({'class_key': 'truncations:' + ctype, 'case': {'ctype': ctype, 'key': key,
                                                                               'file_len': L, 'prefixes': len(lens)}})
    finally:
        hyp.drop_scratch(tmp)


@st.composite
def trunc_cases(draw):
    ctype = draw(st.sampled_from(['json', 'json_nonones', 'numpy', 'frame']))
    vs = value_strategy(ctype)
    return {'trunc': True, 'ctype': ctype, 'key': draw(KEYS), 'value': _enc(ctype, draw(vs)),
            'value2': _enc(ctype, draw(vs))}


def plan(tier):
    q = tier == 'quick'
    shards = [{'kind': 'seq', 'examples': 400 if q else 12000} for _ in range(10 if q else 12)]
    shards += [{'kind': 'trunc', 'examples': 25 if q else 600} for _ in range(4)]
    return shards


def run_shard(shard, seed, tier, rec):
    hyp.silence_library_logging()
    if shard['kind'] == 'seq':
        hyp.run_given(rec, cases(), lambda c: eval_case(c, rec), seed, shard['examples'], kind='seq')
    else:
        hyp.run_given(rec, trunc_cases(), lambda c: eval_truncations(c, rec), seed, shard['examples'], kind='trunc')


def replay(doc, rec):
    hyp.silence_library_logging()
    case = doc['case']
    if case.get('trunc'):
        eval_truncations(case, rec)
    else:
        eval_case(case, rec)
