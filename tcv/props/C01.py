"""C01 — A chain never returns a stale or foreign result."""
import copy

from tcv import gen, histgen, hyp, worker
from tcv.hyp import Violation

LEVEL = 'exploration'
RULE = (
    'Histories over ONE shared data directory: a generated program (every storable data kind, groups, by-class / by-name '
    '/ pattern / optional inputs, parameter objects) with 2-4 configuration variants that differ in parameter values at '
    'any depth, in upstream wiring (optional input present/absent) and in per-namespace context values, plus renamings '
    'that must NOT matter; 5-30 operations: chain and MultiChain constructions in any order, value requests on '
    'arbitrary tasks, forcing (task / chain, delete_data, recompute), injected run failures followed by retries, soft '
    'restarts and 1-3 fresh-interpreter sessions that also compute and load; at the end every task of every live chain '
    'is requested and a fresh interpreter requests every task of every variant. Every generated run returns a digest '
    'of (task, parameter values received, input values received), so a stale, foreign or wrongly wired result changes '
    'the value. Oracle: every value returned anywhere equals the reference evaluation of the REQUESTING chain\'s own '
    'configuration (tcv/model.py). Non-trivial = some value was served from storage written by a different chain '
    'object or process while that task\'s directory held >= 2 distinct results.'
)
ASSUMPTIONS = [
    'task computations are deterministic functions of their declared (non-ignored) parameters and inputs (stated side '
    'condition); ignored parameters are excluded from the digest',
    'global_vars are constant within one history (the location keeps the placeholder form by design)',
    'parameter strings are quote-free (collisions through unescaped quotes are reported under C03 only)',
    'processes work on the directory sequentially',
]
RELEVANT = ['value', 'run-received-wrong-inputs-or-parameters']
KINDS = {'chain': 4, 'multichain': 1, 'value': 9, 'inspect': 1, 'force_task': 1, 'force_chain': 1, 'fault': 1,
         'restart': 1, 'session': 2}
ZY = {}


def eval_case(hist, rec):
    h = copy.deepcopy(hist)
    h['ops'] = h['ops'] + histgen.closing_ops(h)
    out = histgen.run_history(h, zygote=ZY.get('z'), relevant=RELEVANT, keep_going=True)
    for c in set(out.other):
        rec.cls('other-property-clause:' + c)
    flat = histgen.flat_steps(out)
    cross = any(s.get('cross_load_with_alternatives') for s in flat)
    cl = sorted({'op:' + o['op'] for o in hist['ops']}) + [f'variants={len(hist["variants"])}']
    if cross:
        cl.append('cross-load-with-alternatives')
    if any(s.get('failed') for s in flat):
        cl.append('after-failure')
    if any(s.get('session') and s.get('kind') == 'value' for s in flat):
        cl.append('cross-process')
    for v in hist['variants'][1:]:
        for lab in v.get('variant_labels', []):
            cl.append('variant:' + lab)
    rec.case(hist, nontrivial=cross, classes=sorted(set(cl)), sample=histgen.describe(hist))


def strategy():
    gen.UNREAD_INPUTS['on'] = True   # run bodies that do not read every declared input (not run, not loaded; yet forced)
    return histgen.histories(KINDS, max_ops=30, n_variants=(2, 4),
                             gen_kw=dict(max_modules=3, max_tasks=3, kinds=gen.KINDS_ALL), name_mode=True)


def plan(tier):
    q = tier == 'quick'
    return [{'kind': 'history', 'examples': 110 if q else 5000} for _ in range(8 if q else 16)]


def run_shard(shard, seed, tier, rec):
    ZY['z'] = worker.Zygote()
    try:
        hyp.run_given(rec, strategy(), lambda h: eval_case(h, rec), seed, shard['examples'], kind='history',
                      shrink_budget=60)
    finally:
        ZY['z'].close()


def replay(doc, rec):
    ZY['z'] = worker.Zygote()
    try:
        eval_case(doc['case'], rec)
    finally:
        ZY['z'].close()
