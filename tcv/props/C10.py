"""C10 — Task names resolve uniquely or not at all.

Oracle (structural, independent of the library):
  query = [namespace '::'] [group ':'] name ; full name likewise.
  M = full names that match structurally: namespace omitted or exactly equal, group omitted entirely or
      exactly equal, name equal.
  M empty            -> KeyError / not contained
  |M| == 1           -> that task
  |M| > 1            -> if some c in M is a *structural suffix* (at a '::' or ':' boundary) of every other
                        match, c must be returned;
                        else if some c in M is a less-nested form of every other match without being a suffix
                        (levels dropped from the middle), either c or an error is accepted;
                        else an error is required.  Never another member, never a non-member.
  The answer is the same for every declaration order, and every full name resolves to itself.
"""
import itertools

from hypothesis import strategies as st

from tcv import hyp
from tcv.hyp import Violation

LEVEL = 'exploration'
EXHAUSTIVE_ALL = False
RULE = (
    'Part 1 (exhaustive): universe of 32 full names = namespaces {"", n, xn, n::m} x groups {"", g, xg, g:h} x '
    'names {a, xa}; every subset of size 1..3, every declaration order of it, and 75 queries (every short form '
    'and near-miss: namespaces {"", n, xn, n::m, m} x groups {"", g, xg, g:h, h} x names {a, xa, b}); each '
    'evaluated through _find_task_full_name, Chain[...] / in / attribute access and InputTasks[...] / in. '
    'Part 2 (Hypothesis): name sets of size 1..8 over namespaces of depth 0-3, groups of 0-2 levels and a '
    'prefix/suffix-rich alphabet, queries derived from members (short forms, near-misses) and a generated '
    'permutation. Non-trivial = the query structurally matches >= 2 names, or is a strict short form of a match, '
    'or the set holds two names one of which is a textual suffix/prefix of the other; distinct by (sorted set, query).'
)
ASSUMPTIONS = [
    'Chain.__getitem__/__contains__/__getattr__ are exercised on a Chain object whose `tasks` mapping is set '
    'directly (construction through configs is covered by C08); InputTasks is filled through its public __setitem__',
    'full names are built from identifier-like levels; "::" separates namespace levels, ":" group levels',
]

NS_U = ['', 'n', 'xn', 'n::m']
GR_U = ['', 'g', 'xg', 'g:h']
NM_U = ['a', 'xa']
Q_NS = ['', 'n', 'xn', 'n::m', 'm']
Q_GR = ['', 'g', 'xg', 'g:h', 'h']
Q_NM = ['a', 'xa', 'b']


def build(ns, gr, nm):
    s = nm
    if gr:
        s = f'{gr}:{s}'
    if ns:
        s = f'{ns}::{s}'
    return s


def parse(full):
    parts = full.split('::')
    ns = tuple(parts[:-1])
    rest = parts[-1].split(':')
    return ns, tuple(rest[:-1]), rest[-1]


def s_match(q, f):
    qn, qg, qm = parse(q)
    fn, fg, fm = parse(f)
    return (not qn or qn == fn) and (not qg or qg == fg) and qm == fm


def levels(full):
    ns, gr, nm = parse(full)
    return [('n', x) for x in ns] + [('g', x) for x in gr] + [('t', nm)]


def is_struct_suffix(c, t):
    lc, lt = levels(c), levels(t)
    return len(lc) <= len(lt) and lt[len(lt) - len(lc):] == lc


def is_subseq(c, t):
    it = iter(levels(t))
    return all(x in it for x in levels(c))


def expected(query, names):
    """-> ('err',) | ('one', name) | ('one_or_err', name)"""
    M = [f for f in names if s_match(query, f)]
    if not M:
        return ('err',), M
    if len(M) == 1:
        return ('one', M[0]), M
    for c in M:
        if all(is_struct_suffix(c, t) for t in M):
            return ('one', c), M
    for c in M:
        if all(is_subseq(c, t) for t in M):
            return ('one_or_err', c), M
    return ('err',), M


def _lib():
    from taskchain.task import _find_task_full_name, InputTasks
    from taskchain.chain import Chain
    return _find_task_full_name, InputTasks, Chain


class _T:
    def __init__(self, n):
        self.n = n


def observe(query, names, surfaces=True):
    """What the library answers: list of (surface, outcome) with outcome ('one', name) | ('err',)."""
    find, InputTasks, Chain = _lib()
    out = []
    try:
        out.append(('find', ('one', find(query, list(names)))))
    except KeyError:
        out.append(('find', ('err',)))
    if not surfaces:
        return out
    objs = {n: _T(n) for n in names}
    ch = Chain.__new__(Chain)
    ch.tasks = dict(objs)
    it = InputTasks()
    for n in names:
        it[n] = objs[n]
    for label, cont in (('chain', ch), ('inputs', it)):
        try:
            r = cont[query]
            out.append((label + '[]', ('one', r.n) if isinstance(r, _T) else ('bad', repr(r))))
        except KeyError:
            out.append((label + '[]', ('err',)))
        c = query in cont
        out.append((label + '.in', ('in',) if c else ('err',)))
    if query.isidentifier():
        try:
            r = getattr(ch, query)
            out.append(('chain.attr', ('one', r.n) if isinstance(r, _T) else ('bad', repr(r))))
        except (AttributeError, KeyError):
            out.append(('chain.attr', ('err',)))
    return out


def check_one(query, names, surfaces=True):
    exp, M = expected(query, names)
    for surface, got in observe(query, names, surfaces):
        ok = True
        if got[0] == 'bad':
            ok = False
        elif surface.endswith('.in'):
            # containment: True iff resolution succeeds
            if exp[0] == 'err':
                ok = got == ('err',)
            elif exp[0] == 'one':
                ok = got == ('in',)
        else:
            if exp[0] == 'err':
                ok = got == ('err',)
            elif exp[0] == 'one':
                ok = got == ('one', exp[1])
            else:
                ok = got == ('err',) or got == ('one', exp[1])
        if not ok:
            kind = 'nonmember' if (got[0] == 'one' and got[1] not in M) else (
                'silent-pick' if got[0] in ('one', 'in') and exp[0] == 'err' and len(M) > 1 else (
                    'spurious-match' if got[0] in ('one', 'in') and not M else (
                        'wrong-member' if got[0] == 'one' else 'not-resolved')))
            raise Violation(f'resolve:{kind}', {'query': query, 'names': list(names), 'surface': surface,
                                               'expected': exp, 'got': got, 'matches': M})
    return exp, M


def nontrivial(query, names, M):
    if len(M) >= 2:
        return True
    if len(M) == 1 and M[0] != query:
        return True
    for a in names:
        for b in names:
            if a != b and (a.endswith(b) or a.startswith(b)):
                return True
    return False


# ---- shards -----------------------------------------------------------------------------------

def plan(tier):
    universe = len(NS_U) * len(GR_U) * len(NM_U)
    shards = [{'kind': 'exhaustive', 'part': k, 'parts': 16, 'universe': universe} for k in range(16)]
    n_rand = 4 if tier == 'quick' else 16
    per = 6000 if tier == 'quick' else 150000
    shards += [{'kind': 'random', 'examples': per} for _ in range(n_rand)]
    return shards


def run_shard(shard, seed, tier, rec):
    if shard['kind'] == 'exhaustive':
        _exhaustive(shard, rec)
    else:
        _random(shard, seed, rec)


def _exhaustive(shard, rec):
    U = [build(n, g, m) for n in NS_U for g in GR_U for m in NM_U]
    Q = [build(n, g, m) for n in Q_NS for g in Q_GR for m in Q_NM]
    subsets = []
    for k in (1, 2, 3):
        subsets.extend(itertools.combinations(U, k))
    n = 0
    find = _lib()[0]
    for idx, sub in enumerate(subsets):
        if idx % shard['parts'] != shard['part']:
            continue
        perms = list(itertools.permutations(sub))
        for q in Q:
            first = None
            for pi, names in enumerate(perms):
                n += 1
                try:
                    # all access surfaces on the first order, the bare function on the other orders
                    exp, M = check_one(q, names, surfaces=(pi == 0))
                except Violation as v:
                    rec.evaluations += 1
                    rec.fail_now({'query': q, 'names': list(names)}, v, kind='pure')
                    continue
                try:
                    got = ('one', find(q, list(names)))
                except KeyError:
                    got = ('err',)
                if first is None:
                    first = got
                elif got != first:
                    rec.fail_now({'query': q, 'names': list(names)},
                                 Violation('resolve:order-dependent', {'query': q, 'names': list(names),
                                                                       'first_order': first, 'this_order': got}),
                                 kind='pure')
                nt = nontrivial(q, names, M)
                cl = ['matches>=2' if len(M) >= 2 else f'matches={len(M)}', 'expect:' + exp[0]]
                rec.case({'query': q, 'names': sorted(names)}, nontrivial=nt and pi == 0, classes=cl,
                         key=q + '|' + ','.join(sorted(names)))
        # every full name resolves to itself
        for f in sub:
            n += 1
            try:
                for surface, got in observe(f, sub):
                    if got not in (('one', f), ('in',)):
                        raise Violation('resolve:fullname-not-itself', {'query': f, 'names': list(sub),
                                                                        'surface': surface, 'got': got})
                rec.case({'query': f, 'names': sorted(sub)}, nontrivial=False, classes=['fullname'])
            except Violation as v:
                rec.evaluations += 1
                rec.fail_now({'query': f, 'names': list(sub)}, v, kind='pure')
    rec.mark_exhaustive('universe32_subsets<=3_all_orders_75queries', n, True)


LEVELS = ['a', 'xa', 'ax', 'n', 'xn', 'nx', 'g', 'xg', 'train', 'train_x', 'b']


@st.composite
def name_sets(draw):
    lv = st.sampled_from(LEVELS)
    full = st.builds(
        lambda ns, gr, nm: build('::'.join(ns), ':'.join(gr), nm),
        st.lists(lv, min_size=0, max_size=3), st.lists(lv, min_size=0, max_size=2), lv)
    names = draw(st.lists(full, min_size=1, max_size=8, unique=True))
    mode = draw(st.integers(0, 3))
    if mode <= 1:
        base = draw(st.sampled_from(names))
        ns, gr, nm = parse(base)
        keep_ns = draw(st.booleans())
        keep_gr = draw(st.booleans())
        q = build('::'.join(ns) if keep_ns else '', ':'.join(gr) if keep_gr else '', nm)
    elif mode == 2:
        # near miss: partial namespace / partial group / other name
        base = draw(st.sampled_from(names))
        ns, gr, nm = parse(base)
        ns2 = ns[draw(st.integers(0, len(ns))):]
        gr2 = gr[draw(st.integers(0, len(gr))):]
        q = build('::'.join(ns2), ':'.join(gr2), nm)
    else:
        q = draw(full)
    perm = draw(st.permutations(names))
    return {'query': q, 'names': names, 'perm': list(perm)}


def _eval_case(case, rec):
    q, names, perm = case['query'], case['names'], case['perm']
    exp, M = check_one(q, names)
    a = observe(q, names, surfaces=False)[0][1]
    b = observe(q, perm, surfaces=False)[0][1]
    if a != b:
        raise Violation('resolve:order-dependent', {'query': q, 'names': names, 'perm': perm, 'a': a, 'b': b})
    for f in names:
        for surface, got in observe(f, names):
            if got not in (('one', f), ('in',)):
                raise Violation('resolve:fullname-not-itself', {'query': f, 'names': names, 'surface': surface,
                                                                'got': got})
    cl = ['matches>=2' if len(M) >= 2 else f'matches={len(M)}', 'expect:' + exp[0], 'random']
    rec.case({'query': q, 'names': sorted(names)}, nontrivial=nontrivial(q, names, M), classes=cl)


def _random(shard, seed, rec):
    hyp.run_given(rec, name_sets(), lambda c: _eval_case(c, rec), seed, shard['examples'], kind='random')


def replay(doc, rec):
    case = doc['case']
    case = dict(case)
    case.setdefault('perm', list(reversed(case['names'])))
    _eval_case(case, rec)
    for perm in itertools.islice(itertools.permutations(case['names']), 24):
        a = observe(case['query'], case['names'], surfaces=False)[0][1]
        b = observe(case['query'], list(perm), surfaces=False)[0][1]
        if a != b:
            raise Violation('resolve:order-dependent', {'query': case['query'], 'names': case['names'],
                                                        'perm': list(perm), 'a': a, 'b': b})
