"""C03 — Different computations get different storage locations."""
import copy
import hashlib

from hypothesis import strategies as st

from tcv import engine, gen, hyp, model, mutate, rewriting, values
from tcv.eq import canon
from tcv.hyp import Finding, Violation
from tcv.runtime import canon_param

LEVEL = 'exploration'
RULE = (
    '(i) Value level (pure): pairs (v, v\') of JSON-like values / parameter-object definitions, v\' obtained from v by a '
    'small mutation (replace / insert / delete a leaf or subtree at any depth, retag a scalar among 1, 1.0, True, \'1\', '
    'None, \'None\', empty containers [], {}, \'\', [[]], split/merge strings, wrap in a list) or drawn adversarially from '
    'fragments of the other value\'s representation; oracle: type-strict canon(v) != canon(v\') => the representation '
    'used in the key text differs (repr_from_instantiation, Parameter.repr, ParameterRegistry.repr with a second '
    'parameter) and the final key differs. Main campaign: quote-free alphabet; separate campaign: full alphabet '
    'including quotes and separators. (ii) Chain level: an engine case plus 1-2 COMPUTATION-CHANGING rewritings '
    '(parameter value at any depth, retagged scalar, parameter-object argument, rewired input, optional input made '
    'absent, context entry, default-elided parameter leaving its default) at upstream distance 0-4; oracle: for every '
    'pair of corresponding tasks whose reference-model descriptors differ the locations differ (and, with C02, equal '
    'descriptors keep equal locations); no two tasks of one class with different descriptors share a location inside '
    'one chain. Non-trivial = descriptors differ by one mutation at depth >= 1 or at upstream distance >= 1.'
)
RULE += (
    ' (iii) Parameter objects: 2-6 objects of a small AutoParameterObject hierarchy (Base <- Child adds an argument <- '
    'GrandChild adds an elidable one; an unrelated class with the same argument names), defined afresh per case, '
    'represented in a generated order: objects that differ in class or in any persisted argument print differently, '
    'and an object prints the same every time it is asked.'
)
ASSUMPTIONS = [
    'default elision follows Python == as the code and docs do; generated defaults/values are type-consistent so this '
    'never decides a verdict',
    'global_vars are the same for both configurations of a pair (the location keeps the placeholder form by design)',
    'sha256 collisions are not considered',
]

SEP_TEXT = st.one_of(values.TEXT_SMALL, st.sampled_from(["'", "', '", "a', 'b", '###', '$$$', 'x=1', '###y=', ', ', '[', ']',
                                                         '{', '}', ': ', "'}", "{'", '\\', '"']),
                     st.text(alphabet="ab'#$=,: []{}", max_size=8))


def lib_texts(v, v2):
    """Representation texts of v and v2 as they enter a key: bare, as parameter x with a sibling y, and final keys."""
    from taskchain.utils.clazz import repr_from_instantiation
    from taskchain.parameter import Parameter, ParameterRegistry
    out = []
    for val in (v, v2):
        px, py = Parameter('x'), Parameter('y', default='tail')
        px._value, py._value = val, 'tail'
        reg = ParameterRegistry([px, py])
        text = reg.repr
        out.append((repr_from_instantiation(val), px.repr, text,
                    hashlib.sha256(f'{text}$$$'.encode()).hexdigest()[:32]))
    return out


def frozen_collides(v, v2):
    return model.frozen_value_repr(v) == model.frozen_value_repr(v2)


def has_quote(v):
    if isinstance(v, str):
        return "'" in v
    if isinstance(v, list):
        return any(has_quote(x) for x in v)
    if isinstance(v, dict):
        return any(has_quote(k) or has_quote(x) for k, x in v.items())
    return False


def _reshare(v):
    """Make equal sub-containers of a value one shared object (what a YAML alias or re-used Python object gives)."""
    pool = {}

    def go(x):
        if isinstance(x, list):
            y = [go(e) for e in x]
        elif isinstance(x, dict):
            y = {k: go(e) for k, e in x.items()}
        else:
            return x
        key = repr(canon(y))
        return pool.setdefault(key, y)
    return go(v)


def eval_values(case, rec):
    v, v2 = case['v'], case['v2']
    if case.get('shared'):
        v, v2 = _reshare(v), _reshare(v2)
    if canon(v) == canon(v2):
        rec.exclude('mutation-was-identity')
        return
    a, b = lib_texts(v, v2)
    labels = ['repr_from_instantiation', 'Parameter.repr', 'ParameterRegistry.repr', 'key']
    for lab, x, y in zip(labels, a, b):
        if x == y:
            raise Violation('value-collision', {'level': lab, 'v': v, 'v2': v2, 'text': x,
                                                'frozen_scheme_collides_too': frozen_collides(v, v2),
                                                'quote_in_strings': has_quote(v) or has_quote(v2)})
    # default elision: a value that is not equal (Python ==, as documented) to the default must be persisted
    from taskchain.parameter import Parameter
    for dflt, val in ((v, v2), (v2, v)):
        p = Parameter('x', default=dflt, dont_persist_default_value=True)
        p._value = val
        try:
            equal = bool(val == dflt)
        except Exception:
            equal = False
        if not equal and p.repr is None:
            raise Violation('non-default-value-elided', {'default': dflt, 'value': val})
    d = max(_depth(v), _depth(v2))
    rec.case(case, nontrivial=d >= 1, classes=['value-level', 'alphabet:' + case['alphabet'], f'depth>={min(d, 3)}'] + (
        ['shared-container-objects'] if case.get('shared') else []),
             key=hyp.digest([canon(v), canon(v2)]))


def _depth(v):
    if isinstance(v, list):
        return 1 + max([_depth(x) for x in v] + [0])
    if isinstance(v, dict):
        return 1 + max([_depth(x) for x in v.values()] + [0])
    return 0


@st.composite
def value_pairs(draw, alphabet):
    text = values.TEXT_SMALL if alphabet == 'quote-free' else SEP_TEXT
    text = st.one_of(text, text, st.sampled_from(['a b', 'a  b', 'a\tb', 'a\nb', ' a', 'a ', '\t', ' ', '  ', 'a b ', '\n']))
    if draw(st.integers(0, 40)) == 0:
        # long values: two 300..1600-element lists / 1200..6400-character strings differing in one place - near the
        # start, in the middle or at the very end
        n = draw(st.integers(300, 1600))
        where = draw(st.sampled_from(['end', 'middle', 'any']))
        if draw(st.booleans()):
            k = {'end': n - 1, 'middle': n // 2}.get(where, draw(st.integers(0, n - 1)))
            v = list(range(n))
            v2 = v[:k] + [n] + v[k + 1:]
        else:
            k = {'end': 4 * n - 1, 'middle': 2 * n}.get(where, draw(st.integers(0, 4 * n - 1)))
            v = 'x' * n * 4
            v2 = v[:k] + 'y' + v[k + 1:]
        return {'values': True, 'alphabet': alphabet, 'v': v, 'v2': v2, 'long': True}
    base = values.json_values(text=text, max_leaves=8)
    v = draw(base)
    mode = draw(st.integers(0, 3))
    if mode <= 1:
        v2 = mutate._mutate_deep(draw, v)
    elif mode == 2 and draw(st.booleans()):
        # the SAME container object referenced several times inside one value (YAML anchors/aliases, re-used Python
        # objects): [X, Y, X] vs [X, Y, Y]
        cont = st.one_of(st.lists(values.scalars(text), max_size=3), st.dictionaries(text, values.scalars(text), max_size=2))
        X, Y = draw(cont), draw(cont)
        shape = draw(st.sampled_from(['list', 'dict', 'nested']))
        if shape == 'list':
            v, v2 = [X, Y, X], [X, Y, Y]
        elif shape == 'dict':
            v, v2 = {'a': X, 'b': Y, 'c': X}, {'a': X, 'b': Y, 'c': Y}
        else:
            v, v2 = [[X], {'k': Y}, [X]], [[X], {'k': Y}, [Y]]
        return {'values': True, 'alphabet': alphabet, 'v': v, 'v2': v2, 'shared': shape}
    elif mode == 2:
        v2 = draw(base)
    elif False:
        pass
    else:
        # adversarial: a string built from the other value's representation
        r = model.frozen_value_repr(v)
        cut = draw(st.integers(0, len(r)))
        v2 = draw(st.sampled_from([r, r[1:-1], r[:cut], r[cut:], [r[1:-1]], r.replace("'", ''), [r[2:-2]], r[2:-2],
                                   {r[2:-2]: None}, _merge_strings(v)]))
    return {'values': True, 'alphabet': alphabet, 'v': v, 'v2': v2}


def _merge_strings(v):
    """Merge two adjacent strings of a list with the separator the representation would put between them."""
    if isinstance(v, list):
        for i in range(len(v) - 1):
            if isinstance(v[i], str) and isinstance(v[i + 1], str):
                return v[:i] + [v[i] + "', '" + v[i + 1]] + v[i + 2:]
        return [_merge_strings(x) for x in v]
    if isinstance(v, dict):
        return {k: _merge_strings(x) for k, x in v.items()}
    return v


# ---- chain level ---------------------------------------------------------------------------------------

@st.composite
def chain_cases(draw):
    base = draw(gen.cases(max_modules=3, max_tasks=3, kinds=['dict', 'list', 'str', 'int', 'numpy', 'memory', 'memory']))
    kinds = mutate.CHANGING + (['wrap_ns', 'rename_files', 'perm_keys'] if draw(st.booleans()) else [])
    case2, prefix, labels = draw(mutate.rewrite(base, kinds, n_max=2))
    case2['global_vars'] = copy.deepcopy(base.get('global_vars'))
    return {'base': base, 'rewritten': case2, 'prefix': prefix, 'labels': labels}


def eval_chain(pair, rec):
    res = rewriting.compare(pair, rec)
    if res is None:
        return
    m1, m2, mapping = res['m1'], res['m2'], res['mapping']
    changed = [n for n, n2 in mapping.items() if m1[n].descriptor_id != m2[n2].descriptor_id]
    # upstream distance of the change: tasks whose own parameters/wiring are unchanged but that moved anyway
    def own(t):
        return (t.descriptor[0], t.descriptor[1], tuple(k for k, _ in t.descriptor[2]))
    downstream_only = [n for n in changed if own(m1[n]) == own(m2[mapping[n]])]
    cl = ['chain-level'] + ['rw:' + l for l in sorted(set(pair['labels']))]
    if changed:
        cl.append('moved')
    if downstream_only:
        cl.append('moved-by-upstream-change')
    rec.case(pair, nontrivial=bool(downstream_only) or bool(changed and any(
        l in ('chg_value_deep', 'chg_obj_arg') for l in pair['labels'])), classes=cl,
        sample={'labels': pair['labels'], 'changed_tasks': changed[:6], 'base': engine.describe(pair['base']),
                'rewritten_files': engine.describe(pair['rewritten'])['files']})


# ---- known finding: unescaped quotes ---------------------------------------------------------------------

def _match_quote(case, v):
    d = v.detail if isinstance(v.detail, dict) else {}
    return (v.clause == 'value-collision' and d.get('frozen_scheme_collides_too') and d.get('quote_in_strings'))


def _repro_quote():
    a, b = lib_texts(['a', 'b'], ["a', 'b"])
    return a[3] == b[3]


FINDINGS = {
    'quote-injection': Finding(
        "strings are quoted without escaping in key texts: ['a', 'b'] and [\"a', 'b\"] (and a=\"x'###b='y\" vs a='x', b='y') "
        "get the same key; escaping would change every 1.4.0 key containing a quote (C12)",
        _match_quote, _repro_quote),
}


# ---- parameter objects: a small class hierarchy, objects represented in a generated order -----------------------------

OBJ_SRC = '''
from taskchain.parameter import AutoParameterObject, ParameterObject


_BASE_ELIDE = ['b']          # (a hook may well return a module-level list: the library must not write into it)


class Base(AutoParameterObject):
    def __init__(self, a, b=1, verbose=False):
        self.a, self._b, self.verbose = a, b, verbose

    @staticmethod
    def dont_persist_default_value_args():
        return _BASE_ELIDE

    @staticmethod
    def ignore_persistence_args():
        return _BASE_IGNORE


_BASE_IGNORE = ['verbose', 'debug']


class Child(Base):                       # adds an argument
    def __init__(self, a, b=1, verbose=False, c=0):
        super().__init__(a, b, verbose)
        self.c = c


class GrandChild(Child):                 # adds another one, with a default that is not persisted
    def __init__(self, a, b=1, verbose=False, c=0, d='x'):
        super().__init__(a, b, verbose, c)
        self.d = d

    @staticmethod
    def dont_persist_default_value_args():
        return ['b', 'd']


class Other(AutoParameterObject):        # unrelated class with the same argument names
    def __init__(self, a, c=0):
        self.a, self.c = a, c


class Rounded(AutoParameterObject):      # keeps the exact argument in self._a, shows a coarse view of it as self.a
    def __init__(self, a, c=0):
        self._a, self.c = a, c

    @property
    def a(self):
        return self._a if not isinstance(self._a, int) or isinstance(self._a, bool) else self._a // 2 * 2
'''
OBJ_SIG = {'Base': ['a', 'b', 'verbose'], 'Child': ['a', 'b', 'verbose', 'c'],
           'GrandChild': ['a', 'b', 'verbose', 'c', 'd'], 'Other': ['a', 'c'], 'Rounded': ['a', 'c']}
OBJ_DEFAULT = {'b': 1, 'verbose': False, 'c': 0, 'd': 'x'}
OBJ_ELIDE = {'Base': {'b'}, 'Child': {'b'}, 'GrandChild': {'b', 'd'}, 'Other': set(), 'Rounded': set()}


def obj_descriptor(cls, kw):
    """What distinguishes two parameter objects as computations: class + every persisted argument (verbose is ignored,
    an elidable argument at its default is left out), type-strict."""
    full = {n: kw.get(n, OBJ_DEFAULT.get(n)) for n in OBJ_SIG[cls]}
    keep = {}
    for n, v in full.items():
        if n == 'verbose':
            continue
        if n in OBJ_ELIDE[cls] and canon_param(v) == canon_param(OBJ_DEFAULT[n]):
            continue
        keep[n] = canon_param(v)
    return (cls, tuple(sorted(keep.items())))


@st.composite
def object_cases(draw):
    arg = st.one_of(st.integers(0, 3), st.sampled_from(['x', 'y', '']), st.lists(st.integers(0, 2), max_size=2))
    objs = []
    for _ in range(draw(st.integers(2, 6))):
        cls = draw(st.sampled_from(['Base', 'Child', 'Child', 'GrandChild', 'GrandChild', 'Other', 'Rounded', 'Rounded']))
        kw = {'a': draw(arg)}
        for n in OBJ_SIG[cls][1:]:
            if draw(st.booleans()):
                kw[n] = draw(st.booleans()) if n == 'verbose' else draw(
                    st.one_of(st.just(OBJ_DEFAULT[n]), st.sampled_from(['x', 'y']) if n == 'd' else st.integers(0, 3)))
        objs.append([cls, kw])
    # the order in which the objects are represented (an object may be asked several times)
    order = draw(st.lists(st.integers(0, len(objs) - 1), min_size=len(objs), max_size=2 * len(objs)))
    return {'objects': objs, 'order': order + list(range(len(objs)))}


def eval_objects(case, rec):
    ns = {}
    exec(compile(OBJ_SRC, '<c03-objects>', 'exec'), ns)     # fresh classes: nothing cached on them yet
    from taskchain.parameter import Parameter
    insts = [ns[c](**{k: copy.deepcopy(v) for k, v in kw.items()}) for c, kw in case['objects']]
    reprs = {}
    for i in case['order']:
        p = Parameter('p')
        p._value = insts[i]
        r = p.repr
        if i in reprs and reprs[i] != r:
            raise Violation('object-representation-changes-between-calls', {'case': case, 'object': case['objects'][i],
                                                                            'first': reprs[i], 'later': r})
        reprs[i] = r
    descs = [obj_descriptor(c, kw) for c, kw in case['objects']]
    differ = False
    for i in range(len(insts)):
        for j in range(i + 1, len(insts)):
            if descs[i] != descs[j]:
                differ = True
                if reprs[i] == reprs[j]:
                    raise Violation('different-parameter-objects-same-representation',
                                    {'case': case, 'a': case['objects'][i], 'b': case['objects'][j], 'repr': reprs[i]})
    classes = {c for c, _ in case['objects']}
    rec.case(case, nontrivial=differ and len(classes & {'Base', 'Child', 'GrandChild'}) >= 2,
             classes=['objects'] + (['objects:hierarchy'] if len(classes & {'Base', 'Child', 'GrandChild'}) >= 2 else []))


def plan(tier):
    q = tier == 'quick'
    shards = [{'kind': 'values', 'alphabet': 'quote-free', 'examples': 5000 if q else 120000} for _ in range(4 if q else 6)]
    shards += [{'kind': 'values', 'alphabet': 'full', 'examples': 5000 if q else 120000} for _ in range(2 if q else 4)]
    shards += [{'kind': 'chain', 'examples': 200 if q else 8000} for _ in range(8 if q else 6)]
    shards += [{'kind': 'objects', 'examples': 3000 if q else 100000}]
    return shards


def run_shard(shard, seed, tier, rec):
    hyp.silence_library_logging()
    if shard['kind'] == 'values':
        hyp.run_given(rec, value_pairs(shard['alphabet']), lambda c: eval_values(c, rec), seed, shard['examples'],
                      kind='values')
    elif shard['kind'] == 'objects':
        hyp.run_given(rec, object_cases(), lambda c: eval_objects(c, rec), seed, shard['examples'], kind='objects')
    else:
        hyp.run_given(rec, chain_cases(), lambda c: eval_chain(c, rec), seed, shard['examples'], kind='chain')


def replay(doc, rec):
    hyp.silence_library_logging()
    if doc['case'].get('objects'):
        eval_objects(doc['case'], rec)
    elif doc['case'].get('values'):
        eval_values(doc['case'], rec)
    else:
        eval_chain(doc['case'], rec)
