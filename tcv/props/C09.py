"""C09 — Configs compose by declared precedence, without leaking or silent override."""
import copy

from hypothesis import strategies as st

from tcv import build, engine, gen, hyp, model, mutate
from tcv.eq import canon
from tcv.hyp import Violation
from tcv.runtime import canon_param

LEVEL = 'exploration'
RULE = (
    'Engine cases at their widest for configuration: trees of config files (JSON/YAML, depth <= 4, shared sub-configs, '
    'the same file under several namespaces, multi-config files with #part chains and main_part), contexts as dict / '
    'file / list (<= 3 layers) with global entries, for_namespaces entries for exact, outer, inner and unknown '
    'namespaces and nested context `uses` with and without namespaces, parameters with defaults, name_in_config, dtype, '
    'parameter objects, global_vars; plus labelled INVALID mutations: a required value missing from the declaring config '
    'but present in other configs of the tree, a wrong dtype, two different configs declaring one task in one namespace '
    '(either order). Oracle: reference model: task.params of every task, task.value, exceptions at construction; '
    'caller-owned context objects deep-equal before/after; mutating a container parameter value obtained from one task '
    'changes no task declared by another config and not the context; a second Config built from the same context '
    'objects yields the model\'s values again. Non-trivial = a parameter key occurs in >= 2 config instances and the '
    'context touches it at global and namespace level, or a multi-config part reference, or an invalid case.'
)
ASSUMPTIONS = [
    'precedence between an earlier context\'s namespace entry and a later context\'s global entry follows "namespace over '
    'global" (first rule of the statement); nested context `uses` never collide with their parent at the same level',
    'global context data never contains reserved keys (tasks, excluded_tasks, configs, main_part, ...)',
    'the reference model (tcv/model.py) is the oracle; disagreements are triaged both ways',
]


@st.composite
def cases(draw):
    case = draw(gen.cases(max_modules=3, max_tasks=3, patterns=False))
    if draw(st.integers(0, 2)) == 0:
        case = draw(gen.with_multi_config(case))
    if draw(st.integers(0, 3)) == 0:
        case = draw(mutate.invalid_config(case))
    if draw(st.integers(0, 4)) == 0:
        case['uses_as_objects'] = True   # root = Config(data=...) whose `uses` holds Config objects (where the tree allows)
    return case


def eval_case(case, rec):
    import taskchain
    with engine.World(case) as w:
        try:
            ctx_obj = build.make_context(case, w.cfgdir)
        except build.BadEmit:
            return
        snapshot = copy.deepcopy(ctx_obj)
        merr = mt = None
        try:
            mt = w.model()
        except model.ModelError as e:
            merr = e
        lerr = chain = None
        n_failed = _failed_attempts(w, snapshot)
        try:
            with hyp.quiet_output():
                config = w.config_with(ctx_obj)
                chain = config.chain()
        except Exception as e:
            lerr = e
        valid = engine.check_construction(case, chain, mt, lerr, merr)
        cl = []
        if valid:
            engine.check_task_set(case, chain, mt)
            engine.check_params(case, chain, mt)
            engine.check_values(case, chain, mt)
            if canon(_plain(ctx_obj)) != canon(_plain(snapshot)):
                raise Violation('caller-context-mutated', {'before': repr(snapshot)[:300], 'after': repr(ctx_obj)[:300],
                                                          'case': engine.describe(case)})
            # aliasing: mutate container values seen by one task, nobody declared by another config may notice
            mutated = None
            for n, t in chain.tasks.items():
                for k in t.params.keys():
                    v = t.params[k]
                    if isinstance(v, list):
                        v.append('<<mutated>>')
                        mutated = (n, k)
                    elif isinstance(v, dict):
                        v['<<mutated>>'] = 1
                        mutated = (n, k)
                    if mutated:
                        break
                if mutated:
                    break
            if mutated:
                cl.append('aliasing-probe')
                owner = mt[mutated[0]].inst.ident
                # tasks declared by the owning config instance share its data; names that are the same computation
                # as one of those are the very same task object
                own_objs = {id(chain.tasks[x]) for x, m in mt.items() if m.inst.ident == owner}
                for n, m in mt.items():
                    if id(chain.tasks[n]) in own_objs:
                        continue
                    for k, want in m.params.items():
                        if not engine.param_matches(chain, mt, n, k):
                            raise Violation('configs-share-mutable-value', {'mutated_via': mutated, 'seen_by': [n, k],
                                                                            'case': engine.describe(case)})
                if canon(_plain(ctx_obj)) != canon(_plain(snapshot)):
                    raise Violation('config-shares-mutable-value-with-context', {'mutated_via': mutated,
                                                                                 'case': engine.describe(case)})
            # a second config from the same context objects
            try:
                with hyp.quiet_output():
                    chain2 = w.config_with(ctx_obj).chain()
            except Exception as e:
                raise Violation('second-config-from-same-context-raised', {'error': repr(e)[:300],
                                                                           'case': engine.describe(case)})
            engine.check_task_set(case, chain2, mt)
            try:
                engine.check_params(case, chain2, mt)
            except Violation as v:
                raise Violation('second-config-from-same-context:' + v.clause, v.detail)
            cl.append('valid')
        else:
            cl.append('invalid:' + merr.kind)
        if case.get('mutation'):
            cl.append('mutation:' + case['mutation'])
        if n_failed:
            cl.append('after-failed-attempts-in-this-process')
        ctx = case.get('context')
        multi = any(f.get('parts') for f in case['files'])
        if multi:
            cl.append('multi-config')
        nt = (not valid) or multi
        if ctx:
            cl.append('context')
            if any(l.get('nested') for l in ctx['layers']):
                cl.append('context:nested-uses')
            if len(ctx['layers']) > 1:
                cl.append('context:list')
            gk = {k for l in ctx['layers'] for k in l['global']}
            nk = {k for l in ctx['layers'] for e in l['for_ns'].values() for k in e}
            if valid and gk & nk:
                cl.append('context:global+namespace-same-key')
                counts = {}
                for m in mt.values():
                    for p in m.spec['params']:
                        counts.setdefault(p.get('cfg') or p['name'], set()).add(m.inst.ident)
                if any(len(counts.get(k, ())) >= 2 for k in gk & nk):
                    nt = True
        rec.case(case, nontrivial=nt, classes=cl, sample=engine.describe(case))


def _failed_attempts(w, ctx_snapshot):
    """The same process first tries to build the config while one of its files is missing (a typo, a file not yet
    synced), one file at a time, each time with its own copy of the context.  Whatever those attempts do, the build
    that follows with all files in place is judged like any other: a failed construction leaves nothing behind."""
    from pathlib import Path
    n = 0
    for p in sorted(q for q in Path(w.cfgdir).rglob('*') if q.is_file())[:4]:
        hidden = p.with_name(p.name + '.hidden')
        p.rename(hidden)
        try:
            with hyp.quiet_output():
                w.config_with(copy.deepcopy(ctx_snapshot)).chain()
        except Exception:
            n += 1
        finally:
            hidden.rename(p)
    return n


def _plain(o):
    from pathlib import Path
    if isinstance(o, Path):
        return str(o)
    if isinstance(o, list):
        return [_plain(x) for x in o]
    if isinstance(o, dict):
        return {k: _plain(v) for k, v in o.items()}
    return o


def plan(tier):
    q = tier == 'quick'
    return [{'kind': 'config', 'examples': 300 if q else 12000} for _ in range(8 if q else 16)]


def run_shard(shard, seed, tier, rec):
    hyp.run_given(rec, cases(), lambda c: eval_case(c, rec), seed, shard['examples'], kind='config')


def replay(doc, rec):
    eval_case(doc['case'], rec)
