"""Reference model of taskchain's documented semantics.  Never imports taskchain.

From an engine case it computes: config instances (composition through `uses`), effective parameter values (file, then
context global entries, then context entries for the exact namespace; later contexts over earlier ones), the task set,
parameter binding, input resolution, the frozen 1.4.0 storage key and location, and the expected provenance value.
"""
import hashlib
import re
from pathlib import Path, PurePosixPath

from tcv import build
from tcv.runtime import _c, canon_param, provenance


class ModelError(Exception):
    """The model predicts that chain construction fails; `kind` says why."""

    def __init__(self, kind, detail=''):
        super().__init__(f'{kind}: {detail}')
        self.kind = kind
        self.detail = detail


class OutOfDomain(Exception):
    """The case falls into a region the statements leave ambiguous (DESIGN.md §3.3): it is skipped and counted."""


class Obj:
    """Model twin of the generated parameter objects Oa / Ob."""

    def __init__(self, cls, args, kwargs, pkg=None):
        self.cls = cls
        self.written = (list(args), dict(kwargs), pkg)   # the definition as written (plain classes print it)
        if cls == 'Oe':
            names = ['k', 'w', 'tag']
            vals = {'w': 5, 'tag': 't'}
        elif cls == 'Oa':
            names = ['x', 'y']
            vals = {'y': None}
        elif cls == 'Oc':
            names = ['tags']
            vals = {}
        elif cls == 'Od':
            names = ['tag']
            vals = {'seen': None}
        else:
            names = ['k', 'w', 'verbose']
            vals = {'w': 5, 'verbose': False}
        for n, a in zip(names, args):
            vals[n] = a
        vals.update(kwargs)
        self.vals = vals

    def tcv_canon(self):
        if self.cls == 'Oe':
            return ['Oe', _c(self.vals['k']), _c(self.vals['w']), _c(self.vals['tag'])]
        if self.cls == 'Oa':
            return ['Oa', _c(self.vals['x']), _c(self.vals['y'])]
        if self.cls == 'Oc':
            return ['Oc', sorted(self.vals['tags'])]
        if self.cls == 'Od':
            return ['Od', _c(self.vals['tag']), self.vals['seen']]
        return ['Ob', _c(self.vals['k']), _c(self.vals['w'])]

    def repr(self):
        if self.cls == 'Oe':
            # release 1.4.0: '<class path>(<args>, <kw>=<value>, ...)' with the keyword arguments in WRITTEN order
            args, kwargs, pkg = self.written
            a = ', '.join(frozen_value_repr(x) for x in args)
            k = ', '.join(f'{n}={frozen_value_repr(x)}' for n, x in kwargs.items())
            return f'{pkg}.objs.Oe({a}{", " if a and k else ""}{k})'
        if self.cls == 'Od':
            return 'Od(' + sorted_repr(self.vals['tag']) + ')'
        if self.cls == 'Oc':
            return 'Oc(tags=<set: hash order>)'  # not predictable: known finding apo-set-hashseed
        if self.cls == 'Oa':
            return 'Oa(' + sorted_repr(self.vals['x']) + '|' + sorted_repr(self.vals['y']) + ')'
        # AutoParameterObject: sorted init args, python repr of the values, `verbose` ignored, w elided at default
        args = {'k': self.vals['k']}
        if not (self.vals['w'] == 5):
            args['w'] = self.vals['w']
        return 'Ob(' + ', '.join(f'{k}={py_repr(v)}' for k, v in sorted(args.items())) + ')'


class Sub(str):
    """A substituted string: behaves as the substituted text, remembers the placeholder form."""

    def __new__(cls, value, original):
        s = str.__new__(cls, value)
        s.original = original
        return s


def sorted_repr(v):
    """Twin of runtime.stable_repr for model values."""
    if isinstance(v, Sub):
        return repr(v.original)
    if isinstance(v, list):
        return '[' + ', '.join(sorted_repr(x) for x in v) + ']'
    if isinstance(v, dict):
        return '{' + ', '.join(f'{sorted_repr(k)}: {sorted_repr(x)}' for k, x in sorted(v.items())) + '}'
    return repr(v)


def py_repr(v):
    """repr() as the library's values would print (substituted strings keep the placeholder form)."""
    if isinstance(v, Sub):
        return repr(v.original)
    if isinstance(v, list):
        return '[' + ', '.join(py_repr(x) for x in v) + ']'
    if isinstance(v, dict):
        return '{' + ', '.join(f'{py_repr(k)}: {py_repr(x)}' for k, x in v.items()) + '}'
    return repr(v)


def frozen_value_repr(v):
    """Release-1.4.0 representation of a parameter value inside a key text."""
    if isinstance(v, list):
        return '[' + ', '.join(frozen_value_repr(x) for x in v) + ']'
    if isinstance(v, dict):
        return '{' + ', '.join(f'{frozen_value_repr(k)}: {frozen_value_repr(x)}' for k, x in sorted(v.items())) + '}'
    if isinstance(v, Obj):
        return v.repr()
    if isinstance(v, Sub):
        return repr(v.original)
    if isinstance(v, str):
        return "'" + v + "'"
    return repr(v)


def substitute(v, gv):
    """One pass, innermost {NAME} (NAME free of braces and line breaks) with NAME defined -> str(value).
    A string in which the placeholder pattern occurs at all - defined or not - is represented by the Python repr of
    its original text in storage keys (release 1.4.0 wraps it whenever the pattern matched); that is `Sub`."""
    if gv is None:
        return v
    if isinstance(v, str):
        out, i, n, matched = [], 0, len(v), False
        while i < n:
            if v[i] == '{':
                j = i + 1
                while j < n and v[j] not in '{}\n':
                    j += 1
                if j < n and v[j] == '}':
                    name = v[i + 1:j]
                    matched = True
                    if name in gv:
                        out.append(str(gv[name]))
                    else:
                        out.append(v[i:j + 1])
                    i = j + 1
                    continue
                out.append(v[i:j])
                i = j
                continue
            out.append(v[i])
            i += 1
        return Sub(''.join(out), v) if matched else v
    if isinstance(v, list):
        return [substitute(x, gv) for x in v]
    if isinstance(v, dict):
        return {k: substitute(x, gv) for k, x in v.items()}
    return v


PKG = {'name': None}   # package of the generated program under evaluation (plain-class definitions print their path)


def instantiate(v):
    if isinstance(v, dict):
        if '__object__' in v:
            return Obj(v['__object__'], [instantiate(a) for a in v.get('args', [])],
                       {k: instantiate(a) for k, a in v.get('kwargs', {}).items()}, pkg=PKG['name'])
        return {k: instantiate(x) for k, x in v.items()}
    if isinstance(v, list):
        return [instantiate(x) for x in v]
    return v


def join_ns(outer, inner):
    if not inner:
        return outer or None
    return f'{outer}::{inner}' if outer else inner


# ---- context ------------------------------------------------------------------------------------------

def merged_context(case):
    """-> (global entries, {namespace: entries}) after merging all layers (later over earlier, per level)."""
    ctx = case.get('context')
    if not ctx:
        return None
    g, per = {}, {}
    for layer in ctx['layers']:
        lg, lp = layer_context(case, layer, None)
        g.update(lg)
        for ns, e in lp.items():
            per.setdefault(ns, {}).update(e)
    return g, per


def layer_context(case, layer, namespace):
    """One context (dict or file) loaded under `namespace`, with its nested `uses` merged in."""
    g = dict(layer.get('global', {}))
    per = {ns: dict(e) for ns, e in layer.get('for_ns', {}).items()}
    if namespace is not None:
        per = {f'{namespace}::{k}': v for k, v in per.items()}
        per[namespace] = g
        g = {}
    for sub in layer.get('nested', []):
        sub_ns = join_ns(namespace, sub.get('ns'))
        sg, sp = layer_context(case, sub['layer'], sub_ns)
        g.update(sg)
        for ns, e in sp.items():
            per.setdefault(ns, {}).update(e)
    return g, per


# ---- composition ---------------------------------------------------------------------------------------

class Instance:
    def __init__(self, fi, part, ns, node, fname):
        self.fi, self.part, self.ns, self.node, self.fname = fi, part, ns, node, fname
        self.data = None

    @property
    def ident(self):
        return (self.fi, self.part, self.ns)

    @property
    def config_name(self):
        stem = self.fname.split('/')[-1]  # the config name is the file name without directories and extension
        if getattr(self, 'name_override', None):
            stem = self.name_override     # (Config(..., name='...') )
        if getattr(self, 'name_prefix', None):
            stem = self.name_prefix + stem    # (a MultiChain member's root config is given a distinct name)
        return f'{stem}#{self.part}' if self.part else stem


def resolve_part(f, part):
    if not f.get('parts'):
        if part:
            raise ModelError('bad-part', f'{f["name"]} is not a multi-config')
        return None, f['node']
    if part:
        if part not in f['parts']:
            raise ModelError('bad-part', part)
        return part, f['parts'][part]
    mains = [pn for pn, nd in f['parts'].items() if nd.get('main_part')]
    if not mains:
        raise ModelError('no-main-part', f['name'])
    return mains[0], f['parts'][mains[0]]


def compose(case):
    out, seen = [], set()

    def go(fi, part, ns):
        f = case['files'][fi]
        part, node = resolve_part(f, part)
        ident = (fi, part, ns)
        if ident in seen:
            return
        seen.add(ident)
        inst = Instance(fi, part, ns, node, f['name'])
        out.append(inst)
        for u in node['uses']:
            go(u['file'], u.get('part'), join_ns(ns, u.get('ns')))

    go(case['root'], case.get('root_part'), None)
    return out


def effective_data(case, inst, ctx, gv):
    from tcv.build import pkg_name   # (a pure function of the program spec)
    PKG['name'] = pkg_name(case['program'])
    data = dict(inst.node['values'])
    if ctx is not None:
        g, per = ctx
        data.update(g)
        if inst.ns and inst.ns in per:
            data.update(per[inst.ns])
    return {k: instantiate(substitute(v, gv)) for k, v in data.items()}


def global_vars_of(case, cfgdir='<cfgdir>'):
    gv = case.get('global_vars')
    if not gv:
        return None
    vals = {k: v for k, v in gv.items() if k != 'as_object'}
    vals['CFGDIR'] = str(cfgdir)
    return vals


# ---- tasks ---------------------------------------------------------------------------------------------

EXT = {'dict': 'json', 'list': 'json', 'str': 'json', 'int': 'json', 'numpy': 'npy', 'frame': 'pd',
       'generator': 'jsonl', 'lazy': 'jsonl', 'gen_empty': 'jsonl', 'list_numpy': None, 'dir': None, 'memory': None, 'continues': None,
       'figure': 'pickle'}


class MTask:
    def __init__(self, spec, mi, inst):
        self.spec, self.mi, self.inst = spec, mi, inst
        self.slug = spec['slug']
        self.ns = inst.ns
        self.fullname = f'{inst.ns}::{self.slug}' if inst.ns else self.slug
        self.params = {}        # name -> value received by run
        self.raw = {}           # name -> raw config value (before Path conversion)
        self.defaulted = set()  # names whose value is the declared default OBJECT itself (left unset)
        self.inputs = []        # list of (key full name, label, target fullname or None, present)
        self.key = None
        self.value = None

    @property
    def kind(self):
        return self.spec['kind']


def select_tasks(case, node):
    """[(module idx, task spec)] a config node declares (non-abstract, non-excluded), in declaration order."""
    program = case['program']
    tasks, excluded = build.node_tasks(program, node)

    def expand(s):
        for mi in range(len(program['modules'])):
            mp = build.module_path(program, mi)
            if s.startswith(mp + '.'):
                pat = s[len(mp) + 1:]
                if '.' in pat:
                    continue
                rx = re.compile(re.sub(r'\*', '.*', pat))
                found = [t for t in program['modules'][mi]['tasks'] if rx.match(t['cls'])]
                if '*' not in pat:
                    found = found[:1]
                return [(mi, t) for t in found]
        raise ModelError('unknown-task-string', s)

    ex = set()
    for s in excluded:
        for mi, t in expand(s):
            if not t['abstract']:
                ex.add((mi, t['cls']))
    out = []
    for s in tasks:
        for mi, t in expand(s):
            if t['abstract'] or (mi, t['cls']) in ex:
                continue
            if (mi, t['cls']) not in [(a, b['cls']) for a, b in out]:
                out.append((mi, t))
    return out


def default_of(p):
    """The declared default (a Path object when the declaration gives one)."""
    d = p['default']
    if d.get('as_object'):
        return instantiate(d['v'])
    return Path(d['v']) if d.get('as_path') else d['v']


def elided_at_default(t, p, v):
    """dont_persist_default_value: the value 'equals' the default.  Python ==; for a default OBJECT (no __eq__) that is
    identity, i.e. the parameter was left unset."""
    if not (p.get('dpdv') and 'default' in p):
        return False
    if p['default'].get('as_object'):
        return p['name'] in t.defaulted
    return py_eq(v, default_of(p))


def py_eq(a, b):
    """Python == between config values (what default elision uses)."""
    try:
        return bool(a == b)
    except Exception:
        return False


def bind_params(t, data):
    for p in t.spec['params']:
        key = p.get('cfg') or p['name']
        if key in data:
            v = data[key]
        elif 'default' in p:
            v = default_of(p)
            t.defaulted.add(p['name'])
        else:
            raise ModelError('missing-parameter', f'{t.fullname}.{p["name"]}')
        dt = p.get('dtype')
        if dt and v is not None:
            ok = {'Path': isinstance(v, (str, Path)), 'int': isinstance(v, int), 'str': isinstance(v, str),
                  'list': isinstance(v, list), 'dict': isinstance(v, dict), 'float': isinstance(v, float),
                  'bool': isinstance(v, bool)}[dt]
            if not ok:
                raise ModelError('wrong-type', f'{t.fullname}.{p["name"]}')
        t.raw[p['name']] = v
        t.params[p['name']] = Path(v) if dt == 'Path' and v is not None else v


def name_parts(full):
    parts = full.split('::')
    return '::'.join(parts[:-1]), parts[-1]


def resolve_input(query, names):
    """Resolution of a namespace-qualified declared name among full names (namespace must be exactly equal)."""
    qns, qrest = name_parts(query)
    cands = []
    for f in names:
        fns, frest = name_parts(f)
        if fns != qns:
            continue
        if frest == qrest or (':' in frest and ':' not in qrest and frest.split(':')[-1] == qrest):
            cands.append(f)
    if query in cands:
        return query
    if len(cands) == 1:
        return cands[0]
    if not cands:
        return None
    for c in cands:
        if all(x == c or x.endswith(':' + c) for x in cands):
            return c
    raise ModelError('ambiguous-input', f'{query} -> {cands}')


def build_tasks(case, cfgdir='<cfgdir>', parameter_mode=True, root_name_prefix=None, root_name=None):
    """-> {fullname: MTask}; raises ModelError when construction must fail."""
    program = case['program']
    ctx = merged_context(case)
    gv = global_vars_of(case, cfgdir)
    insts = compose(case)
    if root_name_prefix and insts:
        insts[0].name_prefix = root_name_prefix
    if root_name and insts:
        insts[0].name_override = root_name
    tasks = {}
    for inst in insts:
        inst.data = effective_data(case, inst, ctx, gv)
        for mi, spec in select_tasks(case, inst.node):
            t = MTask(spec, mi, inst)
            if t.fullname in tasks and tasks[t.fullname].inst.ident != inst.ident:
                raise ModelError('config-conflict', t.fullname)
            bind_params(t, inst.data)
            tasks[t.fullname] = t
    names = list(tasks)
    for t in tasks.values():
        seen_keys = set()
        for idx, inp in enumerate(build.declared_inputs(t.spec)):
            if inp['form'] in ('pattern', 'pattern2'):
                rx = re.compile(inp['regex'])
                for f in names:
                    fns, frest = name_parts(f)
                    if (inp['form'] == 'pattern2' or (fns or None) == t.ns) and rx.fullmatch(frest):
                        key = f if not t.ns or f.startswith(t.ns + '::') else f'{t.ns}::{f}'
                        if key in seen_keys:
                            raise ModelError('duplicate-input', key)
                        if key != f:
                            raise ModelError('dangling-input', key)  # '~~' match outside the own namespace subtree
                        seen_keys.add(key)
                        t.inputs.append({'key': f, 'idx': None, 'target': f, 'present': True})
                continue
            text = build.input_text(program, inp)
            if text is None:
                text = program['modules'][inp['mod']]['tasks'][inp['task']]['slug']
            if t.ns and text.startswith(t.ns + '::'):
                # code: already absolute; prose: relative.  Excluded by construction.
                raise OutOfDomain('declared input name starts with the own namespace')
            query = text if not t.ns else f'{t.ns}::{text}'
            if query in seen_keys:
                raise ModelError('duplicate-input', query)
            try:
                found = resolve_input(query, names)
            except ModelError:
                if inp.get('optional'):
                    # an ambiguous name for an OPTIONAL input: error or "absent"?  The statements do not say.
                    raise OutOfDomain('ambiguous optional input')
                raise
            if found is not None and inp['form'] == 'class' and found != query:
                found = None  # a class stands for exactly its own task
            if found is None:
                if inp.get('optional'):
                    seen_keys.add(query)
                    t.inputs.append({'key': query, 'idx': idx, 'target': None, 'present': False,
                                     'default': inp['default']})
                    continue
                raise ModelError('dangling-input', f'{t.fullname} -> {query}')
            key = found if inp['form'] != 'class' else query
            if key in seen_keys:
                # a second declaration resolving to an already registered input silently replaces it in the library;
                # whether that is an error is not stated anywhere
                raise OutOfDomain('two declarations resolve to one input')
            seen_keys.add(key)
            t.inputs.append({'key': key, 'idx': idx, 'target': found, 'present': True})
    # acyclic
    state = {}

    def visit(n, stack):
        if state.get(n) == 2:
            return
        if state.get(n) == 1:
            raise ModelError('cycle', ' -> '.join(stack + [n]))
        state[n] = 1
        for i in tasks[n].inputs:
            if i['present']:
                visit(i['target'], stack + [n])
        state[n] = 2

    for n in names:
        visit(n, [])
    for n in names:
        compute_key_value(tasks, n, parameter_mode)
    return tasks


def rel_name(t, full):
    return full[len(t.ns) + 2:] if t.ns and full.startswith(t.ns + '::') else full


def param_text(t):
    reprs = []
    for p in sorted(t.spec['params'], key=lambda p: p['name']):
        if p.get('ignore'):
            continue
        v = t.params[p['name']]
        if elided_at_default(t, p, v):
            continue
        if isinstance(v, Obj):
            r = v.repr()
        elif p.get('dtype') == 'Path':
            raw = t.raw[p['name']]
            r = repr(raw.original) if isinstance(raw, Sub) else repr(raw)
        else:
            r = frozen_value_repr(v)
        reprs.append(f'{p["name"]}={r}')
    return '###'.join(reprs) if reprs else None


def unread(t, i):
    """A declared input the run body never asks for: part of the key, not of the value, and not computed on demand."""
    return t.spec['style'] == 'index' and i['idx'] in (t.spec.get('unread') or ())


def compute_key_value(tasks, n, parameter_mode=True):
    t = tasks[n]
    if t.key is not None:
        return
    present = [i for i in t.inputs if i['present']]
    for i in present:
        compute_key_value(tasks, i['target'], parameter_mode)
    inputs_text = '###'.join(f'{rel_name(t, i["key"])}={tasks[i["target"]].key}'
                             for i in sorted(present, key=lambda i: i['key']))
    t.key_text = f'{param_text(t)}$$${inputs_text}'
    if parameter_mode:
        t.key = hashlib.sha256(t.key_text.encode()).hexdigest()[:32]
    else:
        t.key = t.inst.config_name
    # expected provenance value
    ignored = {p['name'] for p in t.spec['params'] if p.get('ignore')}
    pv = {k: canon_param(v) for k, v in t.params.items() if k not in ignored}
    def _iv(i):
        tt = tasks[i['target']]
        return None if tt.kind == 'gen_empty' else tt.value  # an empty generated sequence carries no digest

    if t.spec['style'] == 'all':
        iv = sorted(((i['key'].split('::')[-1], _iv(i)) for i in present), key=lambda kv: (kv[0], str(kv[1])))
    else:
        iv = [(i['idx'], _iv(i)) for i in present if not unread(t, i)]
    t.value = provenance(t.slug, pv, iv)
    # descriptor: what goes into the computation, in placeholder form (C02/C03) - independent of the key text
    dparams = []
    for p in t.spec['params']:
        if p.get('ignore') or _elided(t, p['name']):
            continue
        raw = t.raw[p['name']]
        dparams.append((p['name'], 'Path' if p.get('dtype') == 'Path' else '', repr(_cd(raw))))
    t.descriptor = (t.slug, tuple(sorted(dparams)), tuple(
        (rel_name(t, i['key']), tasks[i['target']].descriptor_id) for i in sorted(present, key=lambda i: i['key'])))
    t.descriptor_id = hashlib.sha256(repr(t.descriptor).encode()).hexdigest()[:20]


def _cd(v):
    """Type-strict canonical form of a parameter value with substituted strings in their placeholder form."""
    if isinstance(v, Sub):
        return ['s', v.original]
    if isinstance(v, Obj):
        if v.cls == 'Oa':
            return ['Oa', _cd(v.vals['x']), _cd(v.vals['y'])]
        if v.cls == 'Oc':
            return ['Oc', sorted(v.vals['tags'])]
        return ['Ob', _cd(v.vals['k']), _cd(v.vals['w'])]
    if isinstance(v, list):
        return ['l', [_cd(x) for x in v]]
    if isinstance(v, dict):
        return ['d', sorted(([str(k), _cd(x)] for k, x in v.items()), key=lambda kv: kv[0])]
    return _c(v)


def _elided(t, pname):
    for p in t.spec['params']:
        if p['name'] == pname:
            return elided_at_default(t, p, t.params[pname])
    return False


def location(t, base='.'):
    """Relative storage path of the result (None for in-memory tasks)."""
    if t.kind == 'memory':
        return None
    ext = EXT[t.kind]
    d = PurePosixPath(*t.slug.split(':'))
    return str(d / (f'{t.key}.{ext}' if ext else t.key))


def objects(tasks):
    """Groups of full names that must be one shared task object: same slug and same key."""
    groups = {}
    for n, t in tasks.items():
        groups.setdefault((t.slug, t.key), []).append(n)
    return groups
