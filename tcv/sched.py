"""Completion-order controller for parallel_map (C17).

`Controller.f` is the mapped function.  Every call registers as in-flight and blocks on its own event.  A controller
thread waits until the in-flight set is as large as it can get (min(threads, calls left in the chunk)); then it
releases the in-flight call with the best generated priority, one at a time, so the completion order of the workers is
an *input* of the case.  If the implementation under test batches differently than expected the controller falls back
to releasing after a short stable period; safety timers only ever produce `Inconclusive`, never a verdict.
"""
import threading
import time

from tcv.hyp import Inconclusive


class Boom(Exception):
    def __init__(self, x):
        super().__init__(x)
        self.x = x


class StopBoom(StopIteration):
    """What f raises when it calls next() on an exhausted iterator: cannot travel through an asyncio Future."""
    def __init__(self, x):
        super().__init__(x)
        self.x = x


class KeyBoom(KeyError):
    def __init__(self, x):
        super().__init__(x)
        self.x = x


EXC = {'Boom': Boom, 'Stop': StopBoom, 'Key': KeyBoom}


class Hang(BaseException):
    """Raised by the harness alarm in the calling thread when the function under test has not returned."""


def out_of(elem):
    if elem is None:
        return ('out', -1, None)
    return ('out', (elem * 7919 + 13) % 101, elem)


class Controller:
    def __init__(self, elems, threads, chunksize, priority, raising=(), stable_s=0.15, stuck_s=8.0, exc='Boom',
                 returning_exc=()):
        self.elems = list(elems)
        self.index = {e: i for i, e in enumerate(self.elems)}
        self.n = n = len(self.elems)
        self.threads = max(1, threads)
        self.chunksize = chunksize if chunksize else max(1, n)
        self.priority = priority  # list: rank of element index (lower = released first among in-flight)
        self.raising = set(raising)
        self.exc_cls = EXC[exc]
        self.returning_exc = set(returning_exc) - self.raising
        self.returned = {x: ValueError(('returned, not raised', x)) for x in self.returning_exc}
        self.stable_s = stable_s
        self.stuck_s = stuck_s
        self.cv = threading.Condition()
        self.inflight = {}
        self.calls = []            # element index per call, in start order
        self.completions = []      # element index in completion order
        self.finished_calls = 0
        self.done = False
        self.stuck = False
        self.max_parallel = 0
        self.fallback_releases = 0
        self.thread = None

    # mapped function -------------------------------------------------------------------------
    def f(self, elem):
        x = self.index[elem]
        ev = threading.Event()
        with self.cv:
            self.calls.append(x)
            self.inflight[x] = ev
            self.max_parallel = max(self.max_parallel, len(self.inflight))
            self.cv.notify_all()
        if self.threads > 1:
            if not ev.wait(self.stuck_s):
                self.stuck = True
        with self.cv:
            self.inflight.pop(x, None)
            self.completions.append(x)
            self.finished_calls += 1
            self.cv.notify_all()
        if x in self.raising:
            raise self.exc_cls(x)
        if x in self.returning_exc:
            return self.returned[x]   # an exception OBJECT handed back as an ordinary value ("safe worker" pattern)
        return out_of(elem)

    # controller ------------------------------------------------------------------------------
    def _expected(self):
        if not self.inflight:
            return 0
        c = min(self.inflight) // self.chunksize
        lo, hi = c * self.chunksize, min(self.n, (c + 1) * self.chunksize)
        fin = sum(1 for x in self.completions if lo <= x < hi)
        return max(1, min(self.threads, (hi - lo) - fin))

    def _loop(self):
        with self.cv:
            while not self.done:
                if not self.inflight:
                    self.cv.wait(0.05)
                    continue
                deadline = time.monotonic() + self.stable_s
                while not self.done and len(self.inflight) < self._expected():
                    left = deadline - time.monotonic()
                    if left <= 0:
                        self.fallback_releases += 1
                        break
                    self.cv.wait(left)
                if self.done or not self.inflight:
                    continue
                x = min(self.inflight, key=lambda i: (self.priority[i] if i < len(self.priority) else i, i))
                before = self.finished_calls
                self.inflight[x].set()
                t_end = time.monotonic() + self.stuck_s
                while self.finished_calls == before and not self.done:
                    if time.monotonic() > t_end:
                        self.stuck = True
                        break
                    self.cv.wait(0.05)

    def __enter__(self):
        if self.threads > 1:
            self.thread = threading.Thread(target=self._loop, daemon=True)
            self.thread.start()
        return self

    def __exit__(self, *exc):
        with self.cv:
            self.done = True
            for ev in self.inflight.values():
                ev.set()
            self.cv.notify_all()
        if self.thread is not None:
            self.thread.join(self.stuck_s)
        return False

    def check_not_stuck(self):
        if self.stuck:
            raise Inconclusive('completion-order controller timed out waiting for a worker')
