"""Hypothesis strategies for engine cases: program (task classes) + configuration tree + context + global vars.

A case is plain JSON.  Construction is valid by design (see DESIGN.md §3): modules are pipelines, a module may depend on
earlier modules through a fixed relative namespace, config files mirror that structure, a root config mounts one or
several module trees under namespaces.  Invalid cases are produced by labelled mutations (tcv.mutate).
"""
import copy

from hypothesis import strategies as st

from tcv import values

TASK_NAMES = ['a', 'xa', 'b', 'train_x', 'n', 'xn', 'c', 'd', 'ax', 'e', 'g', 'm', 'load_task']
PATTERN_NAMES = ['p_a', 'p_b', 'p_xa', 'p_ab']   # ('p_ab' extends 'p_a': patterns must match whole names)
GROUPS = [None, None, 'g', 'xg', 'g:h']
MODULE_NAMES = ['alpha', 'beta', 'gamma', 'delta']
REL_NS = ['', '', '', 'm', 'train', 'n', 'xn', 'm::k', 'g']   # ('g' is also a task GROUP name)
MOUNT_NS = ['n', 'xn', 'm', 'train', 'n2', 'a', 'g', 'xg']
KINDS_BASIC = ['dict', 'dict', 'list', 'str', 'int']
KINDS_ALL = ['dict', 'list', 'str', 'int', 'numpy', 'frame', 'generator', 'lazy', 'list_numpy', 'dir', 'memory',
             'gen_empty']
PARAM_KEYS = ['x', 'y', 'z', 'lr', 'path', 'opt', 'x2', 'lr10']

# quote-free text, sometimes with placeholders (defined: DATA, CFGDIR when global_vars are given; UNDEF never)
TEXT_PH = st.one_of(values.TEXT_SMALL, values.TEXT_SMALL, values.TEXT_SMALL,
                    st.sampled_from(['{DATA}/f', 'pre_{DATA}', '{UNDEF}/u', '{DATA}{DATA}']))
def _with_repeats(base):
    """Also values that hold the SAME container twice (`[X, X]`, `{'a': X, 'b': X}`): written as YAML they become an
    anchor and an alias - one shared object inside one parameter value."""
    boxes = base.filter(lambda v: isinstance(v, (list, dict)) and bool(v))
    return st.one_of(base, base, base, base, boxes.map(lambda v: [v, 1, copy.deepcopy(v)]),
                     boxes.map(lambda v: {'a': v, 'b': copy.deepcopy(v)}))


param_values = _with_repeats(values.json_values(text=TEXT_PH, keys=values.TEXT_SMALL, max_leaves=5))
# with {CFGDIR}: its value differs between the two configurations of a C02 pair (never used inside one history,
# where global_vars must stay constant)
param_values_cfgdir = _with_repeats(values.json_values(text=st.one_of(TEXT_PH, st.just('{CFGDIR}/q')),
                                                       keys=values.TEXT_SMALL, max_leaves=5))
# strings with quotes, separators of the key text and escapes (C12: representation must stay the 1.4.0 one)
TEXT_KEYISH = st.one_of(values.TEXT_SMALL, st.sampled_from(["'", '"', "a'b", '###', '$$$', 'x=1', "', '", '\\', 'é', ' ', '[]',
                                                            '{A}', "it's", 'a###b=c', '\n']),
                        st.text(alphabet="ab'\"#$=,: []{}\\", max_size=6))
param_values_full = values.json_values(text=TEXT_KEYISH, max_leaves=6)
VALUE_STRATEGY = {'current': param_values}
UNREAD_INPUTS = {'on': False}   # C04/C07: run bodies that do not read every declared input
PLAIN_OBJECTS = {'on': False}   # C12: parameter objects of a plain class (represented by their definition text)
OB_MAPPING_ARGS = {'on': False}   # AutoParameterObject arguments that are mappings (C02 known finding apo-mapping-order)


def _pv():
    return VALUE_STRATEGY['current']


@st.composite
def programs(draw, max_modules=3, max_tasks=4, kinds=KINDS_BASIC, patterns=True, objects=True, optional=True):
    nmod = draw(st.integers(1, max_modules))
    modules = []
    used_slugs = set()
    cls_counter = 0
    all_tasks = []  # (module idx, task idx)
    for mi in range(nmod):
        sub = draw(st.sampled_from([None, None, 'pk']))
        deps = []
        for mj in range(mi):
            if draw(st.booleans()) or (mj == mi - 1 and draw(st.booleans())):
                deps.append({'mod': mj, 'rel': draw(st.sampled_from(REL_NS)), 'voff': 0})
                if draw(st.integers(0, 2)) == 0:
                    # the documented pattern: ONE pipeline used twice under different namespaces with different
                    # configs ("train_data.yaml as train", "valid_data.yaml as valid"), consumed side by side
                    rel2 = draw(st.sampled_from(['left', 'right', 'valid', 'm2']))
                    if deps[-1]['rel'] == '':
                        deps[-1]['rel'] = draw(st.sampled_from(['train', 'm']))
                    deps.append({'mod': mj, 'rel': rel2, 'voff': draw(st.sampled_from([0, 1, 1, 2]))})
        mod = {'name': MODULE_NAMES[mi], 'sub': sub, 'deps': deps, 'tasks': [], 'objects': objects}
        ntasks = draw(st.integers(1, max_tasks))
        for ti in range(ntasks):
            base = draw(st.sampled_from(['Task', 'Task', 'Task', 'ModuleTask'] + (['DoubleModuleTask'] if sub else [])))
            group = draw(st.sampled_from(GROUPS)) if base == 'Task' else None
            is_pat = patterns and draw(st.integers(0, 5)) == 0
            name = draw(st.sampled_from(PATTERN_NAMES if is_pat else TASK_NAMES))
            if is_pat:
                group, base = None, 'Task'
            # Meta.task_group on module-derived groups: release 1.4.0 IGNORES it for ModuleTask and honours it for
            # DoubleModuleTask
            meta_group = draw(st.sampled_from(['g', 'xg', 'g:h'])) if base != 'Task' and draw(st.integers(0, 3)) == 0 else None
            eff_group = group if base == 'Task' else (mod['name'] if base == 'ModuleTask' else (meta_group or f'{sub}:{mod["name"]}'))
            slug = f'{eff_group}:{name}' if eff_group else name
            if slug in used_slugs:
                continue
            used_slugs.add(slug)
            cls = 'Q' + chr(97 + cls_counter // 26) + chr(97 + cls_counter % 26)
            cls_counter += 1
            t = {'cls': cls, 'name': name, 'derive_name': False, 'group': group, 'base': base, 'abstract': False,
                 'slug': slug, 'params': [], 'inputs': [], 'kind': draw(st.sampled_from(kinds)), 'style': 'args'}
            if meta_group:
                t['meta_group'] = meta_group
            # parameters
            keys = draw(st.lists(st.sampled_from(PARAM_KEYS), max_size=3, unique=True))
            for k in keys:
                p = {'name': k, 'cfg': None, 'ignore': False, 'dpdv': False, 'dtype': None}
                flavour = draw(st.integers(0, 9))
                if OB_MAPPING_ARGS['on'] and objects and draw(st.booleans()):
                    flavour = 6
                if flavour == 0:
                    p['cfg'] = k + '_cfg'
                if flavour == 1:
                    p['ignore'] = True
                if flavour in (2, 3, 4):
                    # (defaults live in code and are never substituted: a default that spells a DEFINED placeholder would
                    #  print like a configured, substituted string although the two values differ - see DESIGN 3.3)
                    p['default'] = {'v': _no_defined_placeholders(draw(_pv()))}
                    p['dpdv'] = draw(st.booleans())
                if k == 'path' and flavour >= 5:
                    # a dtype=Path parameter (its values are path strings, often with a {PLACEHOLDER})
                    flavour = 5
                    p['dtype'] = 'Path'
                    if draw(st.integers(0, 2)) > 0:
                        # a Path default (a Path object in the declaration); configs may spell it out as a string
                        p['default'] = {'v': draw(st.sampled_from(['/data/x', 'rel/y'])), 'as_path': True}
                        p['dpdv'] = draw(st.integers(0, 2)) > 0
                if flavour == 6 and objects:
                    p['object'] = 'Ob' if OB_MAPPING_ARGS['on'] else draw(st.sampled_from(
                        ['Oa', 'Ob'] + (['Oe', 'Oe'] if PLAIN_OBJECTS['on'] else [])))
                    if p['object'] == 'Ob' and not OB_MAPPING_ARGS['on'] and draw(st.integers(0, 2)) == 0:
                        # a default that is an OBJECT (e.g. a tokenizer instance), usually not persisted at default
                        p['default'] = {'v': {'__object__': 'Ob', 'args': [draw(st.sampled_from([1, 'dk']))], 'kwargs': {}},
                                        'as_object': True}
                        p['dpdv'] = draw(st.integers(0, 3)) > 0
                if flavour in (7, 8):
                    p['dtype'] = draw(st.sampled_from(['int', 'str', 'list']))
                    if draw(st.integers(0, 2)) > 0:
                        p['default'] = {'v': {'int': 3, 'str': 'dv', 'list': [1]}[p['dtype']]}
                t['params'].append(p)
            # inputs (only if not a pattern source)
            if not is_pat:
                cands = [(mi, i, '') for i in range(len(mod['tasks']))]
                for d in deps:
                    cands += [(d['mod'], i, d['rel']) for i in range(len(modules[d['mod']]['tasks']))]
                cands = [c for c in cands if not modules_get(modules, mod, c)['abstract']]
                n_in = draw(st.integers(0, min(3, len(cands))))
                chosen = draw(st.lists(st.sampled_from(cands), min_size=n_in, max_size=n_in, unique=True)) if cands else []
                # the documented side-by-side pattern: the SAME upstream task taken from two mounts of one pipeline
                # (train::dataset and valid::dataset) - which mount supplies which computation is part of the consumer
                twins = {}
                for d in deps:
                    twins.setdefault(d['mod'], []).append(d['rel'])
                twins = {m_: sorted(set(r_)) for m_, r_ in twins.items() if len(set(r_)) >= 2}
                if twins and draw(st.booleans()):
                    m_ = draw(st.sampled_from(sorted(twins)))
                    ok_tasks = [i for i in range(len(modules[m_]['tasks'])) if not modules[m_]['tasks'][i]['abstract']]
                    if ok_tasks:
                        ti_ = draw(st.sampled_from(ok_tasks))
                        chosen = [c for c in chosen if not (c[0] == m_ and c[1] == ti_)][:1] + \
                                 [(m_, ti_, twins[m_][0]), (m_, ti_, twins[m_][1])]
                for (tm, tidx, rel) in chosen:
                    tgt = modules_get(modules, mod, (tm, tidx, rel))
                    forms = ['gname', 'gname']
                    if rel == '':
                        forms += ['class', 'class']
                    short_unique = sum(1 for s in used_slugs if s.split(':')[-1] == tgt['name']) == 1
                    if short_unique:
                        forms += ['name', 'name']
                    form = draw(st.sampled_from(forms))
                    inp = {'form': form, 'mod': tm, 'task': tidx, 'rel': rel, 'optional': False, 'via_param': False}
                    if optional and draw(st.integers(0, 4)) == 0:
                        inp['optional'] = True
                        inp['via_param'] = draw(st.booleans())
                        inp['default'] = draw(st.sampled_from([None, 0, 'dflt', [1]]))
                    t['inputs'].append(inp)
                if optional and draw(st.integers(0, 6)) == 0:
                    t['inputs'].append({'form': 'absent', 'text': draw(st.sampled_from(['zz_missing', 'g:zz_missing'])),
                                        'optional': True, 'via_param': draw(st.booleans()),
                                        'default': draw(st.sampled_from([None, 0, 'dflt', [1]]))})
                if patterns and draw(st.integers(0, 5)) == 0:
                    t['inputs'].append({'form': 'pattern', 'regex': draw(st.sampled_from(['p_.*', 'p_x?a', 'p_b|p_a']))})
            # run style: arguments when the short names are usable, else by index / whole registry
            has_pattern = any(i['form'] == 'pattern' for i in t['inputs'])
            if has_pattern:
                t['style'] = 'all'
            else:
                shorts = []
                for i in t['inputs']:
                    if i['form'] == 'absent':
                        shorts.append(i['text'].split(':')[-1])
                    else:
                        shorts.append(modules_get(modules, mod, (i['mod'], i['task'], i['rel']))['name'])
                pnames = [p['name'] for p in t['params']]
                ok = len(set(shorts)) == len(shorts) and not (set(shorts) & set(pnames))
                t['style'] = draw(st.sampled_from(['args', 'args', 'index'])) if ok else 'index'
                if t['style'] == 'args' and len(pnames) + len(shorts) >= 2 and draw(st.booleans()):
                    t['sig_perm'] = list(draw(st.permutations(list(range(len(pnames) + len(shorts))))))
                if UNREAD_INPUTS['on'] and ok and pnames and t['inputs'] and draw(st.integers(0, 2)) == 0:
                    # parameters arrive as run arguments, inputs are taken from the registry - but not all of them
                    # (by position in the declared order)
                    t['style'] = 'index'
                    t.pop('sig_perm', None)
                    n_in = len(t['inputs'])
                    t['unread'] = sorted(draw(st.sets(st.integers(0, n_in - 1), min_size=1, max_size=n_in)))
            mod['tasks'].append(t)
            all_tasks.append((mi, len(mod['tasks']) - 1))
        if not mod['tasks']:
            cls = 'Q' + chr(97 + cls_counter // 26) + chr(97 + cls_counter % 26)
            cls_counter += 1
            nm = f'solo{mi}'
            used_slugs.add(nm)
            mod['tasks'].append({'cls': cls, 'name': nm, 'derive_name': False, 'group': None, 'base': 'Task',
                                 'abstract': False, 'slug': nm, 'params': [], 'inputs': [], 'kind': 'dict',
                                 'style': 'args'})
        # occasionally: two tasks with one short name (ungrouped and grouped) and a dependant that declares both,
        # in either order - a full name must address its own task, the less-nested one does not hide the other
        if draw(st.integers(0, 3)) == 0 and f'sib{mi}' not in used_slugs:
            base_t = {'derive_name': False, 'base': 'Task', 'abstract': False, 'params': [], 'inputs': [], 'kind': 'dict',
                      'style': 'index'}
            idx0 = len(mod['tasks'])
            for grp in (None, draw(st.sampled_from(['g', 'xg', 'g:h']))):
                cls = 'Q' + chr(97 + cls_counter // 26) + chr(97 + cls_counter % 26)
                cls_counter += 1
                slug = f'{grp}:sib{mi}' if grp else f'sib{mi}'
                used_slugs.add(slug)
                mod['tasks'].append(dict(copy.deepcopy(base_t), cls=cls, name=f'sib{mi}', group=grp, slug=slug))
            cls = 'Q' + chr(97 + cls_counter // 26) + chr(97 + cls_counter % 26)
            cls_counter += 1
            order = [idx0, idx0 + 1] if draw(st.booleans()) else [idx0 + 1, idx0]
            used_slugs.add(f'sibuser{mi}')
            mod['tasks'].append(dict(copy.deepcopy(base_t), cls=cls, name=f'sibuser{mi}', group=None, slug=f'sibuser{mi}',
                                     inputs=[{'form': draw(st.sampled_from(['gname', 'class'])), 'mod': mi, 'task': k,
                                              'rel': '', 'optional': False, 'via_param': False} for k in order]))
        # occasionally an abstract task that wildcards must skip
        if draw(st.integers(0, 4)) == 0:
            cls = 'Q' + chr(97 + cls_counter // 26) + chr(97 + cls_counter % 26)
            cls_counter += 1
            mod['tasks'].append({'cls': cls, 'name': f'abs{mi}', 'derive_name': False, 'group': None, 'base': 'Task',
                                 'abstract': True, 'slug': f'abs{mi}', 'params': [{'name': 'never', 'cfg': None,
                                                                                    'ignore': False, 'dpdv': False,
                                                                                    'dtype': None}],
                                 'inputs': [], 'kind': 'dict', 'style': 'args'})
        modules.append(mod)
    # a by-short-name declaration must stay unambiguous once the whole program is known
    shorts = {}
    for m in modules:
        for t in m['tasks']:
            shorts[t['name']] = shorts.get(t['name'], 0) + 1
    for m in modules:
        for t in m['tasks']:
            for i in t['inputs']:
                if i['form'] == 'name' and shorts[modules[i['mod']]['tasks'][i['task']]['name']] > 1:
                    i['form'] = 'gname'
    return {'modules': modules}


def modules_get(modules, current, ref):
    tm, tidx, _ = ref
    if tm == len(modules):
        return current['tasks'][tidx]
    return modules[tm]['tasks'][tidx]


def required_targets(program):
    req = set()
    for m in program['modules']:
        for t in m['tasks']:
            for i in t['inputs']:
                if i.get('form') in ('class', 'name', 'gname') and not i.get('optional'):
                    req.add((i['mod'], i['task']))
    return req


def param_keys_of_module(mod):
    keys = {}
    for t in mod['tasks']:
        if t['abstract']:
            continue
        for p in t['params']:
            keys.setdefault(p['cfg'] or p['name'], []).append(p)
    return keys


@st.composite
def value_for(draw, plist, nested_ok=True):
    """A config value acceptable for every parameter declared under this key."""
    if any(p.get('object') for p in plist):
        cls = [p['object'] for p in plist if p.get('object')][0]
        if cls in ('Oa', 'Ob', 'Oe') and not nested_ok:
            pass
        elif cls in ('Oa', 'Ob', 'Oe') and draw(st.integers(0, 3)) == 0:
            # parameter objects INSIDE a list / mapping parameter value
            inner = [draw(value_for(plist, nested_ok=False)) for _ in range(draw(st.integers(1, 2)))]
            return inner if draw(st.booleans()) else {'first': inner[0], 'n': draw(values.small_ints)}
        if cls == 'Oe':
            # a plain class: positional / keyword split and the WRITTEN order of the keyword arguments are part of its text
            kws = draw(st.permutations(['k', 'w', 'tag']))
            vals_ = {'k': draw(st.one_of(values.small_ints, values.TEXT_SMALL)), 'w': draw(st.sampled_from([5, 6])),
                     'tag': draw(st.sampled_from(['t', 'u']))}
            if draw(st.booleans()):
                return {'__object__': 'Oe', 'args': [vals_['k']], 'kwargs': {n: vals_[n] for n in kws if n != 'k' and draw(st.booleans())}}
            return {'__object__': 'Oe', 'args': [], 'kwargs': {n: vals_[n] for n in kws if n == 'k' or draw(st.booleans())}}
        if cls == 'Oa':
            return {'__object__': 'Oa', 'args': [draw(_pv())], 'kwargs': draw(st.sampled_from([{}, {'y': 1}, {'y': 'q'}]))}
        kw = {}
        if draw(st.booleans()):
            kw['w'] = draw(st.sampled_from([5, 6, 7]))
        if draw(st.booleans()):
            kw['verbose'] = draw(st.booleans())
        karg = st.one_of(values.small_ints, values.TEXT_SMALL, TEXT_PH, st.lists(values.small_ints, max_size=3))
        if OB_MAPPING_ARGS['on']:
            karg = st.one_of(karg, st.dictionaries(st.sampled_from(['a', 'b', 'c']), values.small_ints, min_size=2,
                                                   max_size=3))
        return {'__object__': 'Ob', 'args': [draw(karg)], 'kwargs': kw}
    if any(p.get('dtype') == 'Path' for p in plist):
        pool = ['/data/x', 'rel/y', '{DATA}/z', '.']
        if VALUE_STRATEGY.get('current') is param_values_cfgdir:
            pool += ['{CFGDIR}/p', '{CFGDIR}/p']   # differs between the two configurations of a C02 pair
        return draw(st.sampled_from(pool))
    dts = {p['dtype'] for p in plist if p.get('dtype')}
    if dts:
        dt = sorted(dts)[0]
        return draw({'int': st.integers(-3, 9), 'str': values.TEXT_SMALL,
                     'list': st.lists(values.small_ints, max_size=3)}[dt])
    v = draw(_pv())
    # default elision compares with Python ==: keep values type-consistent with the defaults they may equal
    from tcv.runtime import canon_param
    for p in plist:
        if 'default' in p:
            d = p['default']['v']
            try:
                if v == d and canon_param(v) != canon_param(d):
                    v = copy.deepcopy(d)
            except Exception:
                pass
    return v


def _no_defined_placeholders(v):
    if isinstance(v, str):
        return v.replace('{DATA}', 'DATA').replace('{CFGDIR}', 'CFGDIR')
    if isinstance(v, list):
        return [_no_defined_placeholders(x) for x in v]
    if isinstance(v, dict):
        return {_no_defined_placeholders(k): _no_defined_placeholders(x) for k, x in v.items()}
    return v


@st.composite
def config_trees(draw, program, n_variants=None, allow_multi=True, allow_context=True, allow_gv=True):
    """Files: for every module and every variant v a config file; variant v uses variant v of the dependencies."""
    modules = program['modules']
    nvar = n_variants or draw(st.integers(1, 3))
    # a pipeline mounted twice side by side with ANOTHER configuration needs >= 2 variants that really differ there
    twin_mods = {d['mod'] for mod in modules for d in mod['deps'] if d.get('voff')}
    if twin_mods and not n_variants:
        nvar = max(nvar, 2)
    # base values per module
    base_vals = []
    for mod in modules:
        vals = {}
        for key, plist in param_keys_of_module(mod).items():
            required = any('default' not in p for p in plist)
            if required or draw(st.booleans()):
                vals[key] = draw(value_for(plist))
        base_vals.append(vals)
    files = []
    index = {}
    for v in range(nvar):
        # variant v > 0 differs from variant 0 in the modules of diff set D_v (possibly empty: a renamed copy)
        diff = set() if v == 0 else set(draw(st.lists(st.integers(0, len(modules) - 1), max_size=2)))
        if v and twin_mods and draw(st.integers(0, 3)) > 0:
            diff |= twin_mods
        for mi, mod in enumerate(modules):
            vals = copy.deepcopy(base_vals[mi])
            changed = []
            if mi in diff:
                keys = sorted(param_keys_of_module(mod))
                if keys:
                    k = draw(st.sampled_from(keys))
                    vals[k] = draw(value_for(param_keys_of_module(mod)[k]))
                    changed.append(k)
            how = draw(st.sampled_from(['wild', 'wild', 'list', 'list+excl']))
            node = {'module': mi, 'tasks_how': how, 'values': vals, 'uses': [], 'changed': changed}
            if how == 'list+excl':
                req = required_targets(program)
                safe = [t['cls'] for ti, t in enumerate(mod['tasks']) if not t['abstract'] and (mi, ti) not in req]
                if safe and len(safe) < len([t for t in mod['tasks'] if not t['abstract']]):
                    node['excluded'] = [draw(st.sampled_from(safe))]
                else:
                    node['tasks_how'] = 'wild'
            for d in mod['deps']:
                node['uses'].append({'file': None, 'mod': d['mod'], 'variant': (v + d.get('voff', 0)) % nvar,
                                     'ns': d['rel'] or None})
            fmt = draw(st.sampled_from(['json', 'json', 'yaml']))
            sep = draw(st.sampled_from(['_v', '_v', '.v']))   # config names may contain dots (exp.v2.yaml -> exp.v2)
            files.append({'name': f'{mod["name"]}{sep}{v}', 'fmt': fmt, 'node': node})
            index[(mi, v)] = len(files) - 1
    for f in files:
        for u in f['node']['uses']:
            u['file'] = index[(u['mod'], u['variant'])]
    # root: direct (a top-module variant) or a mount config
    top = len(modules) - 1
    shape = draw(st.sampled_from(['direct', 'mount', 'mount', 'mount2']))
    if shape == 'direct':
        root = index[(top, draw(st.integers(0, nvar - 1)))]
    else:
        n_m = draw(st.integers(1, 3))
        uses = []
        seen = set()
        for _ in range(n_m):
            mi = draw(st.sampled_from([top, top, draw(st.integers(0, top))]))
            v = draw(st.integers(0, nvar - 1))
            ns = draw(st.sampled_from([None] + MOUNT_NS))
            if ns in seen:
                continue
            seen.add(ns)
            uses.append({'file': index[(mi, v)], 'mod': mi, 'variant': v, 'ns': ns})
        files.append({'name': 'mount', 'fmt': 'json', 'node': {'module': None, 'tasks_how': 'none', 'values': {},
                                                               'uses': uses, 'changed': []}})
        root = len(files) - 1
        if shape == 'mount2':
            files.append({'name': 'outer', 'fmt': 'yaml', 'node': {'module': None, 'tasks_how': 'none', 'values': {},
                                                                   'uses': [{'file': root, 'mod': None, 'variant': None,
                                                                             'ns': draw(st.sampled_from(MOUNT_NS))}],
                                                                   'changed': []}})
            root = len(files) - 1
    case = {'program': program, 'files': files, 'root': root, 'context': None, 'global_vars': None}
    if allow_gv and draw(st.booleans()):
        case['global_vars'] = {'DATA': draw(st.sampled_from(['/d1', '/d2', 'zz'])), 'as_object': draw(st.booleans())}
    if allow_context and draw(st.integers(0, 2)) > 0:
        case['context'] = draw(contexts(case))
    return case


def namespaces_of(case):
    """All namespaces reachable from the root (generation helper; follows multi-config parts)."""
    out = set()
    seen = set()

    def go(fi, part, ns):
        if (fi, part, ns) in seen:
            return
        seen.add((fi, part, ns))
        out.add(ns)
        f = case['files'][fi]
        if f.get('parts'):
            if not part:
                mains = [p for p, nd in f['parts'].items() if nd.get('main_part')]
                part = mains[0] if mains else sorted(f['parts'])[0]
            node = f['parts'].get(part)
        else:
            node = f['node']
        if not node:
            return
        for u in node['uses']:
            sub = u.get('ns')
            full = ns if not sub else (f'{ns}::{sub}' if ns else sub)
            go(u['file'], u.get('part'), full)

    go(case['root'], case.get('root_part'), None)
    return out


def keys_of(case):
    ks = {}
    for mod in case['program']['modules']:
        for k, pl in param_keys_of_module(mod).items():
            ks.setdefault(k, []).extend(pl)
    return ks


@st.composite
def contexts(draw, case):
    """1-3 context layers; each: global entries + for_namespaces entries (existing and unknown namespaces)."""
    ks = keys_of(case)
    nss = sorted(n for n in namespaces_of(case) if n)
    layers = []
    for _ in range(draw(st.integers(1, 3))):
        layer = {'form': draw(st.sampled_from(['dict', 'dict', 'file_json', 'file_yaml'])), 'global': {}, 'for_ns': {}}
        if ks:
            for k in draw(st.lists(st.sampled_from(sorted(ks)), max_size=2, unique=True)):
                layer['global'][k] = draw(value_for(ks[k]))
            for ns in draw(st.lists(st.sampled_from(nss + ['nowhere', 'n::nowhere']), max_size=2, unique=True)):
                entry = {}
                for k in draw(st.lists(st.sampled_from(sorted(ks)), min_size=1, max_size=2, unique=True)):
                    entry[k] = draw(value_for(ks[k]))
                layer['for_ns'][ns] = entry
        if ks and draw(st.integers(0, 3)) == 0:
            # nested context `uses` (files), with and without `as ns`; keys disjoint from the parent's at each level
            layer['nested'] = []
            for _ in range(draw(st.integers(1, 2))):
                sub_ns = draw(st.sampled_from([None] + nss)) if nss else None
                sub = {'form': draw(st.sampled_from(['file_json', 'file_yaml'])), 'global': {}, 'for_ns': {}}
                for k in draw(st.lists(st.sampled_from(sorted(ks)), min_size=1, max_size=2, unique=True)):
                    sub['global'][k] = draw(value_for(ks[k]))
                # drop keys that would collide with the parent's entries at the level they land on
                level = layer['global'] if sub_ns is None else layer['for_ns'].get(sub_ns, {})
                sub['global'] = {k: v for k, v in sub['global'].items() if k not in level}
                for other in layer['nested']:
                    if other['ns'] == sub_ns:
                        sub['global'] = {k: v for k, v in sub['global'].items() if k not in other['layer']['global']}
                layer['nested'].append({'ns': sub_ns, 'layer': sub})
                if draw(st.booleans()):
                    # depth 2: the nested context itself uses another one, plainly (it then stays under the namespace
                    # its user was loaded under) or `as ns2`; keys unused anywhere else in this layer
                    used = set(layer['global']) | {k for e in layer['for_ns'].values() for k in e} | {
                        k for o in layer['nested'] for k in o['layer']['global']}
                    free = sorted(set(ks) - used)
                    if free:
                        sub2 = {'form': draw(st.sampled_from(['file_json', 'file_yaml'])), 'global': {}, 'for_ns': {}}
                        for k in draw(st.lists(st.sampled_from(free), min_size=1, max_size=2, unique=True)):
                            sub2['global'][k] = draw(value_for(ks[k]))
                        # a relative namespace that leads to an existing one, or none
                        rel = [None, None]
                        if sub_ns:
                            rel += [n[len(sub_ns) + 2:] for n in nss if n.startswith(sub_ns + '::')]
                        else:
                            rel += nss
                        sub['nested'] = [{'ns': draw(st.sampled_from(rel)), 'layer': sub2}]
        layers.append(layer)
    return {'layers': layers, 'as_list': len(layers) > 1 or draw(st.booleans())}


@st.composite
def with_multi_config(draw, case):
    """Rewrite: move 2+ config files into one multi-config file with parts (computation preserving)."""
    case = copy.deepcopy(case)
    n = len(case['files'])
    if n < 2:
        return case
    chosen = sorted(draw(st.sets(st.integers(0, n - 1), min_size=2, max_size=min(n, 4))))
    parts = {}
    mi = len(case['files'])
    for fi in chosen:
        parts[case['files'][fi]['name']] = case['files'][fi]['node']
    fmt = draw(st.sampled_from(['json', 'yaml']))
    case['files'].append({'name': 'multi', 'fmt': fmt, 'parts': parts, 'node': None})
    local_style = draw(st.booleans())
    for f in case['files']:
        nodes = list(f['parts'].values()) if f.get('parts') else [f['node']]
        for nd in nodes:
            for u in nd['uses']:
                if u['file'] in chosen:
                    u['part'] = case['files'][u['file']]['name']
                    u['file'] = mi
                    u['local'] = local_style and f.get('parts') is not None
    if case['root'] in chosen:
        pname = case['files'][case['root']]['name']
        case['root'] = mi
        if draw(st.booleans()):
            parts[pname]['main_part'] = True
        else:
            case['root_part'] = pname
            case['root_part_style'] = draw(st.sampled_from(['hash', 'arg']))
            other = [p for p in parts if p != pname]
            if other and draw(st.booleans()):
                parts[other[0]]['main_part'] = True
    # the files moved into the multi-config no longer exist on their own
    for fi in chosen:
        case['files'][fi] = {'name': case['files'][fi]['name'] + '_moved', 'fmt': 'json', 'node': {
            'module': None, 'tasks_how': 'none', 'values': {}, 'uses': [], 'changed': []}}
    return case


@st.composite
def cases(draw, **kw):
    prog = draw(programs(**{k: v for k, v in kw.items() if k in ('max_modules', 'max_tasks', 'kinds', 'patterns',
                                                                'objects', 'optional')}))
    return draw(config_trees(prog, **{k: v for k, v in kw.items() if k in ('n_variants', 'allow_multi', 'allow_context',
                                                                          'allow_gv')}))
