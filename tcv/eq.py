"""Type-strict deep equality and canonical forms for JSON-like values, numpy arrays, pandas objects, directories."""
import hashlib
import math
import struct
from pathlib import Path


def _np():
    import numpy as np
    return np


def _pd():
    import pandas as pd
    return pd


def canon(v):
    """Canonical, hashable, type-strict form.  Mapping key order is NOT part of it; list order is."""
    np = _np()
    if v is None:
        return ('none',)
    if isinstance(v, bool):
        return ('bool', v)
    if isinstance(v, int):
        return ('int', v)
    if isinstance(v, float):
        return ('float', struct.pack('>d', v).hex())
    if isinstance(v, str):
        return ('str', str(v))
    if isinstance(v, bytes):
        return ('bytes', v.hex())
    if isinstance(v, (list, tuple)):
        return ('list' if isinstance(v, list) else 'tuple', tuple(canon(x) for x in v))
    if isinstance(v, dict):
        return ('dict', tuple(sorted((canon(k), canon(x)) for k, x in v.items())))
    if isinstance(v, np.ndarray):
        return ('nd', str(v.dtype), v.shape, hashlib.sha256(np.ascontiguousarray(v).tobytes()).hexdigest())
    if isinstance(v, np.generic):
        return ('npscalar', str(v.dtype), v.tobytes().hex())
    if isinstance(v, Path):
        return ('path', str(v))
    return ('obj', type(v).__name__, repr(v))


def strict_eq(a, b):
    """Type-strict structural equality: no True==1, no 1==1.0, floats by bit pattern, arrays by dtype+shape+bytes."""
    np, pd = _np(), _pd()
    if isinstance(a, (pd.DataFrame, pd.Series)) or isinstance(b, (pd.DataFrame, pd.Series)):
        return pandas_eq(a, b) is None
    if isinstance(a, np.ndarray) or isinstance(b, np.ndarray):
        return array_eq(a, b) is None
    try:
        return canon(a) == canon(b)
    except Exception:
        return False


def array_eq(a, b):
    """None if identical arrays (dtype, shape, bytes), else a description of the difference."""
    np = _np()
    if not isinstance(a, np.ndarray) or not isinstance(b, np.ndarray):
        return f'types {type(a).__name__} vs {type(b).__name__}'
    if a.dtype != b.dtype:
        return f'dtype {a.dtype} vs {b.dtype}'
    if a.shape != b.shape:
        return f'shape {a.shape} vs {b.shape}'
    if a.dtype.hasobject:
        return None if canon(a.tolist()) == canon(b.tolist()) else 'object content differs'
    if np.ascontiguousarray(a).tobytes() != np.ascontiguousarray(b).tobytes():
        return 'bytes differ'
    return None


def pandas_eq(a, b):
    pd = _pd()
    if type(a) is not type(b):
        return f'types {type(a).__name__} vs {type(b).__name__}'
    try:
        if isinstance(a, pd.DataFrame):
            pd.testing.assert_frame_equal(a, b, check_exact=True, check_dtype=True, check_index_type=True,
                                          check_column_type=True, check_names=True)
            if list(a.dtypes.astype(str)) != list(b.dtypes.astype(str)):
                return 'dtypes differ'
        else:
            pd.testing.assert_series_equal(a, b, check_exact=True, check_dtype=True, check_index_type=True,
                                           check_names=True)
    except AssertionError as e:
        return str(e)[:300]
    return None


def tree_digest(root, skip_empty_dirs=True, suffix_filter=None):
    """{relative path: ('file', sha256) | ('link', target) | ('dir',)} for everything under root."""
    root = Path(root)
    out = {}
    if not root.exists():
        return out
    for p in sorted(root.rglob('*')):
        rel = str(p.relative_to(root))
        if p.is_symlink():
            import os
            out[rel] = ('link', os.readlink(p))
        elif p.is_dir():
            if not skip_empty_dirs or any(p.iterdir()):
                out[rel] = ('dir',)
        else:
            if suffix_filter and not suffix_filter(rel):
                continue
            out[rel] = ('file', hashlib.sha256(p.read_bytes()).hexdigest())
    return out


def is_finite_json(v):
    if isinstance(v, float):
        return math.isfinite(v)
    if isinstance(v, list):
        return all(is_finite_json(x) for x in v)
    if isinstance(v, dict):
        return all(is_finite_json(x) for x in v.values())
    return True
