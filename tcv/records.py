"""C18 support: what generated run bodies log / record, and what the model expects to find afterwards."""
from collections import defaultdict

LEVELS = ['debug', 'info', 'warning', 'error']


def messages(seq, slug, threshold=10):
    """The tagged messages run `seq` emits, at levels debug..error in turn; only those at or above the logger's
    threshold reach the log."""
    import logging
    return [f'tcv|{seq}|{i}|{slug}' for i in range(1 + seq % 3)
            if getattr(logging, LEVELS[(seq + i) % 4].upper()) >= threshold]


def records(seq):
    out = []
    for i in range(seq % 3):
        if i == 0:
            out.append(f'rec|{seq}|{i}')
        elif i == 1:
            out.append({'seq': seq, 'i': i, 'nested': [1, None]})
    if seq % 4 == 3:
        out.append({'counts': {'a': seq}})   # emitted as a defaultdict
    if seq % 5 == 2:
        out.append({'by_epoch': {0: 1.0, 1: 0.5, seq: None}})   # integer keys (loss by epoch): a record is kept as given
    return out


def hook(task, seq, digest):
    """Installed in RT.hooks: runs inside every generated run body (before an injected fault fires)."""
    for i, m in enumerate(messages(seq, task.slugname)):
        getattr(task.logger, LEVELS[(seq + i) % 4])(m)
        if i == 0 and seq % 4 == 1:
            _build_chain_mid_run(task)
    for r in records(seq):
        if isinstance(r, dict) and 'counts' in r:
            dd = defaultdict(dict)
            dd.update(r)
            task.save_to_run_info(dd)
        else:
            task.save_to_run_info(r)


def _build_chain_mid_run(task):
    """Another chain over the same config is constructed (not computed) while this task runs - what a comparison
    task, a notebook cell in another thread or a helper does.  It creates tasks with the same full names, hence the
    same process-wide loggers; the running task's log must not notice."""
    import logging
    # constructing a task sets its (process-wide) logger's level to DEBUG; the model tracks levels per chain
    # construction of the history, so the levels are put back: the stimulus is about handlers only
    levels = {n: lg.level for n, lg in logging.Logger.manager.loggerDict.items()
              if n.startswith('task_') and isinstance(lg, logging.Logger)}
    try:
        import taskchain
        cfg = task.get_config()
        taskchain.Chain(getattr(cfg, 'original_config', cfg))
    except Exception:
        pass    # a stimulus only: configs that cannot stand alone are skipped
    finally:
        for n, lv in levels.items():
            logging.getLogger(n).setLevel(lv)


def generator_message(seq, slug):
    return f'tcv|{seq}|gen|{slug}'


def generator_record(seq):
    return f'genrec|{seq}'
