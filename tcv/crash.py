"""Crash-state recorder for C05: an audit hook sees every file-system-mutating event under the data directory while one
request is executed, and the directory is snapshotted BEFORE each event.  Snapshot k is exactly the state left by a
process killed immediately before operation k (unflushed buffers lost).  Torn files (killed while writing) are
synthesised from the snapshot taken before the event that follows the open plus a prefix of the bytes finally written."""
import os
import shutil
import sys
from pathlib import Path

STATE = {'active': False, 'root': None, 'snapdir': None, 'events': [], 'busy': False, 'installed': False}
WRITE_FLAGS = os.O_WRONLY | os.O_RDWR | os.O_CREAT | os.O_TRUNC | os.O_APPEND
MUTATING = {'os.mkdir', 'os.rename', 'os.remove', 'os.rmdir', 'os.truncate', 'os.symlink', 'os.link', 'os.chmod'}


def _under(path, root):
    try:
        p = os.fspath(path)
    except TypeError:
        return False
    if isinstance(p, bytes):
        p = p.decode('utf-8', 'replace')
    return p.startswith(root)


def _hook(event, args):
    st = STATE
    if not st['active'] or st['busy']:
        return
    root = st['root']
    rec = None
    if event == 'open':
        path, mode, flags = args
        if isinstance(path, int) or not isinstance(flags, int) or not (flags & WRITE_FLAGS):
            return
        if not _under(path, root):
            return
        rec = {'kind': 'open-w', 'path': os.fspath(path), 'trunc': bool(flags & os.O_TRUNC)}
    elif event in MUTATING:
        path = args[0]
        rel = not isinstance(path, int) and not os.path.isabs(os.fspath(path)) if not isinstance(path, int) else False
        dir_fd = args[-1] if event in ('os.mkdir', 'os.remove', 'os.rmdir') else None
        if _under(path, root) or (dir_fd is not None and rel) or (event == 'os.rename' and _under(args[1], root)):
            rec = {'kind': event, 'path': str(path), 'dst': str(args[1]) if event == 'os.rename' else None}
    if rec is None:
        return
    st['busy'] = True
    try:
        k = len(st['events'])
        snap = os.path.join(st['snapdir'], str(k))
        shutil.copytree(root, snap, symlinks=True)
        rec['snapshot'] = snap
        st['events'].append(rec)
    finally:
        st['busy'] = False


def install():
    if not STATE['installed']:
        sys.addaudithook(_hook)
        STATE['installed'] = True


class Recording:
    def __init__(self, data_dir, snapdir):
        self.data = str(data_dir)
        self.snapdir = str(snapdir)
        self.events = []

    def __enter__(self):
        install()
        os.makedirs(self.snapdir, exist_ok=True)
        STATE.update(active=True, root=self.data, snapdir=self.snapdir, events=[], busy=False)
        return self

    def __exit__(self, *exc):
        STATE['active'] = False
        self.events = STATE['events']
        STATE['events'] = []
        return False


def crash_states(rec, data_dir, prefix_policy='all'):
    """Yield (label, builder) for every crash state; builder(target_dir) materialises the state."""
    data_dir = Path(data_dir)
    events = rec.events
    n = len(events)

    def copy_snapshot(snap, target):
        if os.path.exists(target):
            shutil.rmtree(target)
        shutil.copytree(snap, target, symlinks=True)

    for k, ev in enumerate(events):
        yield {'point': k, 'of': n, 'before': ev['kind'], 'path': _short(ev['path'], data_dir), 'torn': None}, \
            (lambda t, s=ev['snapshot']: copy_snapshot(s, t))
    # the state immediately AFTER a rename, with nothing else flushed: a file renamed into place while its content is
    # still in a write buffer is visible under the final name but empty / short
    for k, ev in enumerate(events):
        if ev['kind'] != 'os.rename' or not ev.get('dst'):
            continue

        def builder(t, s=ev['snapshot'], src=ev['path'], dst=ev['dst']):
            copy_snapshot(s, t)
            rs, rd = os.path.relpath(src, str(data_dir)), os.path.relpath(dst, str(data_dir))
            if not rs.startswith('..') and not rd.startswith('..') and os.path.lexists(os.path.join(t, rs)):
                if os.path.isdir(os.path.join(t, rd)) and not os.path.islink(os.path.join(t, rd)):
                    return
                os.replace(os.path.join(t, rs), os.path.join(t, rd))
        yield {'point': k, 'of': n, 'before': 'after-rename', 'path': _short(ev['dst'], data_dir), 'torn': None}, builder
    # torn prefixes of every file opened for writing
    for k, ev in enumerate(events):
        if ev['kind'] != 'open-w':
            continue
        # the bytes the file holds when the next event happens (or at the end of the run)
        nxt = events[k + 1]['snapshot'] if k + 1 < n else str(data_dir)
        rel = os.path.relpath(ev['path'], str(data_dir))
        final_path = os.path.join(nxt, rel)
        if not os.path.isfile(final_path):
            continue
        final = open(final_path, 'rb').read()
        L = len(final)
        if prefix_policy == 'all' or L <= 256:
            lens = list(range(0, L))
        else:
            marks = {0, 1, L - 1}
            marks |= {i + 1 for i, b in enumerate(final[:4096]) if b in (10,)}       # line ends
            marks |= {p for p in (6, 10, 64, 128) if p < L}                          # npy magic / header area
            marks |= {i for i in range(0, L, max(1, L // 16))}
            lens = sorted(m for m in marks if 0 <= m < L)

        def build(t, s=ev['snapshot'], rel=rel, final=final, ln=None):
            raise NotImplementedError

        for ln in lens:
            def builder(t, s=ev['snapshot'], rel=rel, final=final, ln=ln):
                copy_snapshot(s, t)
                p = os.path.join(t, rel)
                os.makedirs(os.path.dirname(p), exist_ok=True)
                with open(p, 'wb') as f:
                    f.write(final[:ln])
            yield {'point': k, 'of': n, 'before': 'write', 'path': _short(ev['path'], data_dir),
                   'torn': [ln, L]}, builder


def _short(p, root):
    p = str(p)
    return os.path.relpath(p, str(root)) if p.startswith(str(root)) else p
