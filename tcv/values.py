"""Shared Hypothesis strategies for JSON-like values."""
from hypothesis import strategies as st

I64_MIN, I64_MAX = -(2 ** 63), 2 ** 63 - 1

SAFE_ALPHA = 'abxyz01_-. /'
TEXT_SMALL = st.text(alphabet=SAFE_ALPHA, max_size=6)
# (strings that spell JSON / Python tokens are ordinary strings)
TOKEN_WORDS = st.sampled_from(['NaN', 'Infinity', '-Infinity', 'null', 'true', 'false', 'None', 'ratio is NaN here',
                               'to Infinity and', '1e999', '0x10', '01'])
TEXT_FULL = st.one_of(st.text(alphabet=st.characters(blacklist_categories=('Cs',)), max_size=12),
                      st.text(alphabet=st.characters(blacklist_categories=('Cs',)), max_size=12),
                      st.text(alphabet=st.characters(blacklist_categories=('Cs',)), max_size=12), TOKEN_WORDS)

boundary_ints = st.sampled_from([0, 1, -1, 2 ** 31 - 1, -(2 ** 31), 2 ** 53, 2 ** 53 + 1, I64_MAX, I64_MIN, 255, 256])
ints = st.one_of(st.integers(-5, 5), st.integers(I64_MIN, I64_MAX), boundary_ints)
small_ints = st.integers(-3, 3)
floats = st.one_of(
    st.floats(allow_nan=False, allow_infinity=False, width=64),
    st.sampled_from([0.0, -0.0, 1.0, -1.0, 0.5, 1e308, -1e308, 5e-324, 2.2250738585072014e-308, 1e16, 0.1]),
)


def scalars(text=TEXT_SMALL, with_float=True):
    opts = [st.none(), st.booleans(), ints, text]
    if with_float:
        opts.append(floats)
    return st.one_of(*opts)


def json_values(text=TEXT_SMALL, keys=None, max_leaves=12, with_float=True):
    keys = keys or text
    return st.recursive(
        scalars(text, with_float),
        lambda ch: st.one_of(st.lists(ch, max_size=4), st.dictionaries(keys, ch, max_size=4)),
        max_leaves=max_leaves,
    )


# scalars that look alike but must be told apart
LOOKALIKES = [1, 1.0, True, '1', None, 'None', 0, 0.0, False, '', '0', [], {}, [[]], [None], 'True', 'null']
