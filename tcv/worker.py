"""Zygote: a process forked before this shard built any chain; it forks a pristine child per session request."""
import json
import os
import select
import sys
import traceback

from tcv.hyp import Inconclusive


class Zygote:
    def __init__(self):
        self.req_r, self.req_w = os.pipe()
        self.rep_r, self.rep_w = os.pipe()
        sys.stdout.flush()
        sys.stderr.flush()
        self.pid = os.fork()
        if self.pid == 0:
            os.close(self.req_w)
            os.close(self.rep_r)
            self._serve()
            os._exit(0)
        os.close(self.req_r)
        os.close(self.rep_w)
        self.req = os.fdopen(self.req_w, 'w')
        self.rep = os.fdopen(self.rep_r, 'r')

    def _serve(self):
        try:
            import taskchain  # noqa: F401  (imported once; children are forked from here)
            from tcv import history  # noqa: F401
        except Exception:
            traceback.print_exc()
        req = os.fdopen(self.req_r, 'r')
        rep = os.fdopen(self.rep_w, 'w')
        while True:
            line = req.readline()
            if not line:
                return
            path = line.strip()
            pid = os.fork()
            if pid == 0:
                try:
                    out = os.open(path + '.out', os.O_WRONLY | os.O_CREAT | os.O_TRUNC, 0o644)
                    sys.__stdout__ = os.fdopen(out, 'w')
                    sys.argv = ['tcv.history', path]
                    from tcv import history
                    history.session_main()
                except BaseException:
                    with open(path + '.err', 'w') as f:
                        traceback.print_exc(file=f)
                os._exit(1)
            _, status = os.waitpid(pid, 0)
            rep.write(f'{status}\n')
            rep.flush()

    def run(self, request, path, timeout=180):
        with open(path, 'w') as f:
            json.dump(request, f)
        self.req.write(path + '\n')
        self.req.flush()
        r, _, _ = select.select([self.rep], [], [], timeout)
        if not r:
            raise Inconclusive('fresh-interpreter session did not answer')
        status = self.rep.readline().strip()
        try:
            text = open(path + '.out').read().strip().splitlines()[-1]
            return json.loads(text)
        except Exception:
            err = ''
            if os.path.exists(path + '.err'):
                err = open(path + '.err').read()[-500:]
            raise Inconclusive(f'fresh-interpreter session failed (status {status}): {err}')

    def close(self):
        try:
            self.req.close()
            os.waitpid(self.pid, 0)
        except Exception:
            pass
