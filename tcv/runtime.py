"""Runtime injected into generated task modules as `_tcv`.

`compute(task, params, inputs)` is the body of every generated `run`: it appends to the invocation log and returns the
*provenance value* of the task: a digest of (slug name, non-ignored parameter values it actually received, labelled input
values it actually received), encoded in the task's data kind.
"""
import hashlib
import json
from pathlib import Path


class Runtime:
    def __init__(self):
        self.log = []          # (fullname, name_for_persistence, id(task), seq)
        self.seq = 0
        self.fail = {}         # slugname -> remaining failures to inject
        self.hooks = []        # callables(task) run inside compute (C18: logging / run-info emitters)
        self.salt_seq = False  # C07: embed the run's sequence number into the value
        self.gen_messages = False  # C18: generator bodies log while being consumed
        self.special = {}          # C05: slug -> 'mistyped' | 'unserializable' | 'gen-mid' | 'mid' (consumed once)
        self.dir_symlink = None    # C20: path that generated directory results link to (relative symlink)
        self.mock_values = {}      # C19: values returned by the source tasks that stand in for mocks in the real chain
        self.classes = {}

    def reset(self):
        self.log.clear()
        self.seq = 0
        self.fail.clear()
        self.hooks.clear()
        self.special.clear()
        self.dir_symlink = None
        self.salt_seq = False
        self.gen_messages = False


RT = Runtime()


def canon_param(v):
    """Type-strict canonical JSON text of a parameter value (as received by run)."""
    return json.dumps(_c(v), sort_keys=True)


def _c(v):
    if v is None:
        return ['n']
    if isinstance(v, bool):
        return ['b', v]
    if isinstance(v, int):
        return ['i', str(v)]
    if isinstance(v, float):
        return ['f', v.hex()]
    if isinstance(v, Path):
        return ['P', str(v)]
    if isinstance(v, str):
        return ['s', str(v)]
    if isinstance(v, list):
        return ['l', [_c(x) for x in v]]
    if isinstance(v, dict):
        return ['d', sorted(([str(k), _c(x)] for k, x in v.items()), key=lambda kv: kv[0])]
    if hasattr(v, 'tcv_canon'):
        return ['o', v.tcv_canon()]
    return ['?', type(v).__name__, repr(v)]


def stable_repr(v):
    """Representation used by the generated ParameterObject Oa.repr(): python repr (so substituted strings keep their
    placeholder form), mappings sorted by key."""
    if isinstance(v, list):
        return '[' + ', '.join(stable_repr(x) for x in v) + ']'
    if isinstance(v, dict):
        return '{' + ', '.join(f'{stable_repr(k)}: {stable_repr(x)}' for k, x in sorted(v.items())) + '}'
    return repr(v)


def provenance(slug, params, inputs, salt=None):
    """params: {name: canonical text}; inputs: list of (label, digest)."""
    doc = [slug, sorted(params.items()), [[str(l), d] for l, d in inputs]]
    if salt is not None:
        doc.append(['seq', salt])
    return hashlib.sha256(json.dumps(doc).encode()).hexdigest()[:16]


def digest_of(value):
    """Recover the provenance digest from a value of any generated data kind."""
    import numpy as np
    import pandas as pd
    if isinstance(value, dict):
        return value.get('v')
    if isinstance(value, str):
        return value
    if isinstance(value, bool):
        return repr(value)
    if isinstance(value, int):
        return '%016x' % value
    if isinstance(value, list):
        if value and isinstance(value[0], np.ndarray):
            return ''.join(bytes(a.tolist()).hex() for a in value)
        return value[0] if value else None
    if isinstance(value, np.ndarray):
        return bytes(value.tolist()).hex()
    if isinstance(value, pd.DataFrame):
        return value['v'].iloc[0] if len(value) else None
    if isinstance(value, Path):
        f = value / 'v.txt'
        return f.read_text() if f.exists() else None
    if type(value).__name__ == 'Figure' and hasattr(value, '_suptitle'):
        return value._suptitle.get_text() if value._suptitle is not None else None
    if callable(value):
        items = list(value())
        return items[0] if items else None
    if hasattr(value, 'tcv_digest'):
        return value.tcv_digest
    return repr(value)


def encode(kind, d, task):
    import numpy as np
    import pandas as pd
    special = RT.special.pop(task.slugname, None) if task is not None else None
    if special == 'mistyped':
        return {'not': 'the declared type'} if kind != 'dict' else ['not', 'a', 'dict']
    if special == 'unserializable':
        if kind == 'dict':
            return {'v': d, 'bad': {1, 2}}
        if kind == 'list':
            return [d, {1, 2}]
        if kind in ('generator', 'lazy'):
            return (x for x in [d, {1, 2}])
    if special == 'gen-mid' and kind in ('generator', 'lazy'):
        def broken():
            yield d
            raise InjectedFault('generator body failed after one item')
        return broken()
    if special in ('mid', 'imid') and kind in ('dir', 'continues'):
        data = task.get_data_object()
        (data.dir / 'v.txt').write_text(d)
        (data.dir / 'progress').write_text('first')
        if special == 'imid':
            raise InjectedInterrupt('interrupted after writing part of the work directory')
        raise InjectedFault('failed after writing part of the work directory')
    if kind == 'continues':
        data = task.get_data_object()
        resumed = (data.dir / 'progress').exists()
        (data.dir / 'progress').write_text('resumed' if resumed else 'first')
        (data.dir / 'v.txt').write_text(d)
        data.finished()
        return data
    if kind == 'dict':
        return {'v': d}
    if kind == 'list':
        return [d, 'x']
    if kind == 'str':
        return d
    if kind == 'int':
        return int(d, 16)
    if kind == 'numpy':
        return np.array(list(bytes.fromhex(d)), dtype='uint8')
    if kind == 'frame':
        return pd.DataFrame({'v': [d], 'w': [1.5]})
    if kind == 'generator':
        return _logging_gen(task, [d, {'k': [1, None]}])
    if kind == 'lazy':
        return _logging_gen(task, [d, 'tail'])
    if kind == 'gen_empty':
        return (x for x in [])
    if kind == 'mock':
        return RT.mock_values[task.slugname]
    if kind == 'list_numpy':
        b = bytes.fromhex(d)
        # twelve arrays (element files 0.npy .. 11.npy: more than ten, so their ORDER on disk is not the order of their
        # names as text): four empty ones, then one byte each
        return [np.array([], dtype='uint8') for _ in range(4)] + [np.array([x], dtype='uint8') for x in b]
    if kind == 'dir':
        data = task.get_data_object()
        # rows are appended as they are produced: the run relies on starting from an EMPTY work directory (anything a
        # dead earlier attempt left behind would end up in the published result)
        with (data.dir / 'v.txt').open('a') as f:
            f.write(d)
        (data.dir / 'sub').mkdir(exist_ok=True)
        (data.dir / 'sub' / 'w.bin').write_bytes(b'\x00\x01')
        if RT.dir_symlink:
            # a relative link to something outside the result directory (e.g. an input's result): C20
            import os
            target = Path(RT.dir_symlink)
            link = data.dir / 'outside.lnk'
            if not link.exists() and not link.is_symlink():
                link.symlink_to(os.path.relpath(target, data.dir))
        return data
    if kind == 'figure':
        # a matplotlib figure carrying the digest as its title (stored as .pickle, with .png / .svg renderings beside it)
        import matplotlib
        matplotlib.use('Agg')
        from matplotlib.figure import Figure
        fig = Figure(figsize=(1, 1))
        fig.suptitle(d)
        return fig
    if kind == 'memory':
        obj = RT.classes['MemValue']()
        obj.tcv_digest = d
        obj.tcv_len = int(d[:1], 16) % 2
        return obj
    raise ValueError(kind)


def _logging_gen(task, items):
    """A generator body that logs while it is being consumed (C18: such messages belong to the run's log)."""
    seq = RT.seq
    emit = RT.gen_messages

    def gen():
        if emit:
            task.logger.info(f'tcv|{seq}|gen|{task.slugname}')
            task.save_to_run_info(f'genrec|{seq}')
        for x in items:
            yield x
    return gen()


def compute(task, params, inputs):
    """params: {name: value received}; inputs: list of (label, value received) (absent optional inputs: omitted)."""
    rt = RT
    rt.seq += 1
    seq = rt.seq
    slug = task.slugname
    try:
        nfp = task.name_for_persistence
    except Exception as e:  # pragma: no cover
        nfp = 'ERR:' + repr(e)
    ignored = task.meta.get('tcv_ignored', ())
    p = {k: canon_param(v) for k, v in params.items() if k not in ignored}
    i = [(label, digest_of(v)) for label, v in inputs]
    d = provenance(slug, p, i, salt=seq if rt.salt_seq else None)
    rt.log.append((task.fullname, nfp, id(task), seq, slug, d))
    for h in list(rt.hooks):
        h(task, seq, d)
    n = rt.fail.get(slug, 0)
    if n:
        # a negative count arms interrupts (KeyboardInterrupt: a BaseException that is not an Exception)
        rt.fail[slug] = n - 1 if n > 0 else n + 1
        if n < 0:
            raise InjectedInterrupt(f'injected interrupt in {slug}')
        raise InjectedFault(f'injected fault in {slug}')
    return encode(task.meta.get('tcv_kind', 'dict'), d, task)


class InjectedFault(Exception):
    pass


class InjectedInterrupt(KeyboardInterrupt):
    """What Ctrl-C / a notebook's "interrupt kernel" raises inside run: not an `Exception`."""


def _is_task(t):
    import taskchain
    return isinstance(t, taskchain.Task)


def _check_default(task, idx, got):
    want = task.meta.get('tcv_defaults', {}).get(idx, '<<none>>')
    if canon_param(got) != canon_param(want):
        raise RuntimeError(f'absent optional input #{idx} of {task.fullname} bound to {got!r}, declared default {want!r}')


def gather_args(task, argvals):
    """argvals: values received as run arguments, aligned with the declaration order of the inputs."""
    out = []
    tl = task.input_tasks.task_list
    if len(tl) != len(argvals):
        raise RuntimeError(f'{task.fullname}: {len(tl)} input entries, {len(argvals)} declared')
    for idx, (t, v) in enumerate(zip(tl, argvals)):
        if _is_task(t):
            out.append((idx, v))
        else:
            _check_default(task, idx, v)
    return out


def gather_index(task, n, skip=()):
    """`skip`: declared inputs this run does not read (a report that needs its reference data only when asked to
    calibrate): they are not asked for their value."""
    out = []
    for idx in range(n):
        if idx in skip:
            continue
        t = task.input_tasks[idx]
        if _is_task(t):
            out.append((idx, t.value))
        else:
            _check_default(task, idx, t)
    return out


def gather_all(task):
    """Whole registry, labelled by the namespace-free part of each input's name (a task object shared by several
    mounts carries the full names of one of them, so namespaces are not part of the label)."""
    out = []
    for k, t in task.input_tasks.items():
        if _is_task(t):
            out.append((k.split('::')[-1], t.value))
    return sorted(((l, v) for l, v in out), key=lambda kv: (kv[0], str(digest_of(kv[1]))))
