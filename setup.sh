#!/bin/bash
# Offline setup: make sure Hypothesis is importable in /venv (wheelhouse only), byte-compile nothing else.
cd "$(dirname "${BASH_SOURCE[0]}")" || exit 1
if ! /venv/bin/python -c "import hypothesis" 2>/dev/null; then
  /venv/bin/pip install --no-index --find-links /opt/veriftools/wheels hypothesis || exit 1
fi
/venv/bin/python -c "import hypothesis, numpy, pandas; print('hypothesis', hypothesis.__version__)" || exit 1
chmod +x check
exit 0
