#!/bin/bash
# Validate MANIFEST.json and every evidence file against the schemas (uses the tooling venv's jsonschema).
cd "$(dirname "${BASH_SOURCE[0]}")" || exit 1
python3-vt - <<'PY'
import json, glob, sys, jsonschema
ok = True
try:
    jsonschema.validate(json.load(open('MANIFEST.json')), json.load(open('/root/.vp/MANIFEST.schema.json')))
except Exception as e:
    ok = False; print('MANIFEST invalid:', e)
es = json.load(open('/root/.vp/EVIDENCE.schema.json'))
for f in sorted(glob.glob('evidence/*.json')):
    try:
        jsonschema.validate(json.load(open(f)), es)
    except Exception as e:
        ok = False; print(f, 'invalid:', str(e)[:300])
print('valid' if ok else 'INVALID')
sys.exit(0 if ok else 1)
PY
