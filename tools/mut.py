#!/venv/bin/python
"""Sensitivity driver: run checks against a mutated scratch copy of /repo (never touches /repo).

  tools/mut.py [--tests] [--tier quick] (--patch F.diff | --file REL --old S --new S [--count N]) ID [ID...]

Copies /repo/{src,tests,pyproject.toml} to a scratch dir, applies the change, optionally runs the repository's tests
there, runs ./check ID with TCV_SRC pointing at the copy, prints verdicts, removes the copy.
"""
import argparse
import os
import shutil
import subprocess
import sys
import tempfile
from pathlib import Path

ap = argparse.ArgumentParser()
ap.add_argument('--patch')
ap.add_argument('--file')
ap.add_argument('--old')
ap.add_argument('--new')
ap.add_argument('--count', type=int, default=1)
ap.add_argument('--tests', action='store_true')
ap.add_argument('--tier', default='quick')
ap.add_argument('--seed', default='1')
ap.add_argument('--keep', action='store_true')
ap.add_argument('ids', nargs='*')
a = ap.parse_args()

d = Path(tempfile.mkdtemp(prefix='tcv-mut-'))
try:
    for name in ('src', 'tests', 'pyproject.toml'):
        s = Path('/repo') / name
        if s.is_dir():
            shutil.copytree(s, d / name, ignore=shutil.ignore_patterns('__pycache__'))
        else:
            shutil.copy(s, d / name)
    if a.patch:
        r = subprocess.run(['patch', '-p1', '-s', '-i', os.path.abspath(a.patch)], cwd=d)
        if r.returncode:
            print('PATCH FAILED')
            sys.exit(3)
    else:
        f = d / 'src' / 'taskchain' / a.file
        s = f.read_text()
        if s.count(a.old) < 1:
            print('OLD TEXT NOT FOUND')
            sys.exit(3)
        f.write_text(s.replace(a.old, a.new, a.count))
    env = dict(os.environ, TCV_SRC=str(d / 'src'), PYTHONPATH=str(d / 'src'), VERIF_SEED=a.seed)
    if a.tests:
        r = subprocess.run(['/venv/bin/python', '-m', 'pytest', '-q', '-p', 'no:cacheprovider', '-x', '-q'], cwd=d,
                           env=env, capture_output=True, text=True)
        print('TESTS:', r.stdout.strip().splitlines()[-1] if r.stdout.strip() else r.stderr[-300:])
    env.pop('PYTHONPATH')
    rc_all = {}
    for pid in a.ids:
        r = subprocess.run(['/verif/check', pid, '--tier', a.tier], env=env, capture_output=True, text=True)
        lines = [l for l in r.stdout.splitlines() if 'VIOLATION' in l or 'violated clause' in l or 'HARNESS' in l
                 or 'KNOWN' in l]
        print(f'{pid}: exit={r.returncode}')
        for l in lines[:6]:
            print('   ', l[:400])
        if r.returncode == 2:
            print(r.stdout[-1500:])
        rc_all[pid] = r.returncode
finally:
    if not a.keep:
        shutil.rmtree(d, ignore_errors=True)
    else:
        print('kept', d)
