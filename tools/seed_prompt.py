"""Print the prompt given to a seeding sub-agent for one property (text of the property only, nothing from /verif's checks)."""
import json, sys
pid = sys.argv[1]
wt = sys.argv[2]
props = {json.loads(l)['id']: json.loads(l) for l in open('/verif/properties.jsonl') if l.strip()}
p = props[pid]
print(f"""You are helping to evaluate a verification effort by seeding realistic defects into a Python library.

Work ONLY inside the scratch git worktree {wt} (a checkout of the library "taskchain": small Python library for
config-driven data/ML pipelines; tasks form a DAG, results persist to disk under hashes of parameters and upstream tasks).
Never read or modify /repo or /verif. Never commit. Do not install anything (there is no network).

How to run things (the interpreter is /venv/bin/python; always put the worktree's src first on PYTHONPATH):
  cd {wt} && PYTHONPATH={wt}/src /venv/bin/python -m pytest -q -p no:cacheprovider -x      # 128 tests, all pass, ~5-15 s
  cd {wt} && PYTHONPATH={wt}/src /venv/bin/python demo1.py

The property that users of the library rely on (it must hold for every input / history / schedule, not just sampled ones):

  {p['id']} — {p['title']}
  Statement: {p['statement']}
  Quantified over: {p['quantifier']['text']}
  Relevant files: {', '.join(p['anchors']['files'])}

YOUR TASK: produce TWO distinct, independent changes to the library source (under {wt}/src/taskchain) each of which
BREAKS this property, while the code still imports and the ENTIRE existing test suite still passes unchanged.
Requirements for each change:
  * It must look like something a developer could plausibly introduce (a refactoring, an optimisation, a "simplification",
    an off-by-one, a wrong condition, a forgotten case) - small, no markers/comments announcing it, no dead giveaways.
  * It must need something SPECIFIC to manifest: a particular interleaving, a crash or fault at a particular point,
    a multi-step sequence of operations, an unusual input, or two cooperating sites that each look fine alone.
    It must NOT be exposed at once by ordinary use (and of course not by the existing tests).
  * The two changes should have different root causes / touch different mechanisms.
  * Write a demonstration for each: a standalone script {wt}/demo1.py (resp. demo2.py), runnable as shown above, that
    exits NON-ZERO (e.g. failed assert) when the change is applied and exits 0 on the unchanged code. Use temporary
    directories for data; keep it deterministic and fast (< 30 s).
  * Each change is independent: patch1 applies to the unchanged tree, patch2 applies to the unchanged tree.

Procedure for change k (k = 1, 2):
  1. read the source, design the change, edit files under src/taskchain;
  2. run the full test suite -> must still be 128 passed;
  3. run demo<k>.py -> must fail;
  4. `git diff -- src > {wt}/patch<k>.diff`; then `git checkout -- src` to return to the unchanged tree and run demo<k>.py
     again -> must pass on the unchanged code. (Do NOT use `git stash`: the stash is shared with other worktrees.)
     To re-apply a change use `git apply {wt}/patch<k>.diff`.
Finally write {wt}/NOTES.md with, per change: which part of the property it breaks, what exactly is needed for it to
manifest, and the commands you ran with their outcomes. Leave the worktree with src unchanged (patches only in the
.diff files). In your final answer, list the files you produced and one paragraph per change.""")
