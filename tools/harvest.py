#!/venv/bin/python
"""Harvest regression cases: run a property's quick check against a mutated scratch copy of /repo, take the replay file
of every violation it reports, confirm that the replay FAILS on the mutated copy and HOLDS on /repo as it is (twice), and
store it (without the bulky detail) as regressions/<ID>/<name>[-k].json.

  tools/harvest.py --seeded NAME[,NAME...] | --all-seeded | --revert COMMIT[,COMMIT...]   [--jobs N] [--props ID,ID]
"""
import argparse, json, os, re, shutil, subprocess, tempfile
from concurrent.futures import ThreadPoolExecutor
from pathlib import Path

ROOT = Path('/verif')
ap = argparse.ArgumentParser()
ap.add_argument('--seeded')
ap.add_argument('--all-seeded', action='store_true')
ap.add_argument('--revert')
ap.add_argument('--jobs', type=int, default=2)
ap.add_argument('--props')
ap.add_argument('--seeds', default='1')
a = ap.parse_args()


def scratch(patch_text):
    d = Path(tempfile.mkdtemp(prefix='tcv-hv-'))
    for name in ('src', 'tests', 'pyproject.toml'):
        s = Path('/repo') / name
        (shutil.copytree(s, d / name, ignore=shutil.ignore_patterns('__pycache__')) if s.is_dir() else shutil.copy(s, d / name))
    r = subprocess.run(['patch', '-p1', '-s'], input=patch_text, cwd=d, capture_output=True, text=True)
    if r.returncode:
        shutil.rmtree(d, ignore_errors=True)
        return None
    return d


def harvest(name, patch_text, props):
    d = scratch(patch_text)
    if d is None:
        print(name, 'PATCH DOES NOT APPLY', flush=True)
        return
    kept = []
    try:
        for pid in props:
            for seed in a.seeds.split(','):
                env = dict(os.environ, TCV_SRC=str(d / 'src'), VERIF_SEED=seed)
                r = subprocess.run([str(ROOT / 'check'), pid, '--tier', 'quick'], env=env, capture_output=True, text=True, cwd=ROOT)
                paths = re.findall(r'VIOLATION property=\S+ replay=(\S+)', r.stdout)
                for k, rp in enumerate(paths):
                    rp = ROOT / rp
                    # must fail on the mutated copy, hold on the real tree (twice)
                    rm = subprocess.run([str(ROOT / 'check'), pid, '--replay', str(rp)], env=env, capture_output=True, text=True, cwd=ROOT)
                    ok = rm.returncode == 1
                    for _ in range(2):
                        rc = subprocess.run([str(ROOT / 'check'), pid, '--replay', str(rp)], capture_output=True, text=True, cwd=ROOT,
                                            env={k_: v for k_, v in os.environ.items() if k_ != 'TCV_SRC'})
                        ok = ok and rc.returncode == 0
                    if not ok:
                        continue
                    doc = json.loads(rp.read_text())
                    out = {'property': pid, 'origin': name, 'clause': doc['clause'], 'kind': doc.get('kind'), 'case': doc['case']}
                    dest = ROOT / 'regressions' / pid
                    dest.mkdir(parents=True, exist_ok=True)
                    f = dest / f'{name}{"" if not kept else "-" + str(len(kept))}.json'
                    f.write_text(json.dumps(out, indent=None, default=str))
                    kept.append(str(f.relative_to(ROOT)))
                if paths:
                    break
    finally:
        shutil.rmtree(d, ignore_errors=True)
    print(name, '->', kept or 'nothing harvested', flush=True)


jobs = []
if a.all_seeded or a.seeded:
    names = sorted(p.name for p in (ROOT / 'seeded').iterdir() if (p / 'meta.json').exists())
    if a.seeded:
        names = [n for n in names if any(n.startswith(x) for x in a.seeded.split(','))]
    for n in names:
        meta = json.loads((ROOT / 'seeded' / n / 'meta.json').read_text())
        props = a.props.split(',') if a.props else (meta.get('caught_by') or [meta['property']])
        jobs.append((n, (ROOT / 'seeded' / n / 'patch.diff').read_text(), props))
if a.revert:
    for c in a.revert.split(','):
        patch = subprocess.run(['git', '-C', '/repo', 'diff', c, c + '^', '--', 'src'], capture_output=True, text=True).stdout
        line = [l for l in (ROOT / 'known-findings.txt').read_text().splitlines() if l.startswith('fixed:') and c[:7] in l]
        props = a.props.split(',') if a.props else sorted({re.search(r'property=(\S+)', l).group(1) for l in line})
        jobs.append((f'revert-{c[:7]}', patch, props))
with ThreadPoolExecutor(a.jobs) as ex:
    list(ex.map(lambda j: harvest(*j), jobs))
