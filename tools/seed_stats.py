#!/venv/bin/python
"""Counts over seeded/*/meta.json: how many seeded changes the quick tier catches, and by which check."""
import json, pathlib, collections
root = pathlib.Path(__file__).resolve().parent.parent / 'seeded'
n = own = anyc = 0; missed = []; other_only = []
per = collections.Counter(); perc = collections.Counter()
for d in sorted(root.iterdir()):
    m = d / 'meta.json'
    if not m.exists(): continue
    j = json.loads(m.read_text()); n += 1; per[j['property']] += 1
    cb = j.get('caught_by') or []
    if cb: anyc += 1; perc[j['property']] += 1
    if j['property'] in cb: own += 1
    elif cb: other_only.append((d.name, cb))
    else: missed.append(d.name)
print(f'seeded changes: {n}; caught by some quick check: {anyc}; caught by the quick check of the property they target: {own}')
print('caught only by a neighbouring check:'); [print('  ', a, b) for a, b in other_only]
print('not caught:'); [print('  ', a) for a in missed]
print('per property (caught/seeded):', ', '.join(f'{k} {perc[k]}/{per[k]}' for k in sorted(per)))
