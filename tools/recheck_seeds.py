#!/venv/bin/python
"""Re-run the registered quick checks against every seeded change (scratch copies; /repo untouched) and refresh
seeded/<name>/meta.json ('checks_quick', 'caught_by') and seeded/RESULTS.md.
   tools/recheck_seeds.py [--only name,name] [--jobs N] [--extra C01,C12]"""
import argparse, json, os, shutil, subprocess, tempfile
from concurrent.futures import ThreadPoolExecutor
from pathlib import Path

ap = argparse.ArgumentParser()
ap.add_argument('--only')
ap.add_argument('--jobs', type=int, default=2)
ap.add_argument('--missed', action='store_true', help='only seeds not caught by their own property')
a = ap.parse_args()
root = Path('/verif/seeded')
seeds = sorted(d for d in root.iterdir() if d.is_dir() and (d / 'meta.json').exists())
if a.only:
    seeds = [d for d in seeds if any(d.name.startswith(x) for x in a.only.split(','))]


def run(d):
    meta = json.loads((d / 'meta.json').read_text())
    if a.missed and meta['property'] in meta.get('caught_by', []):
        return d.name, meta
    checks = sorted(set([meta['property']] + list(meta.get('checks_quick', {}))))
    t = Path(tempfile.mkdtemp(prefix='tcv-rs-'))
    try:
        for name in ('src', 'tests', 'pyproject.toml'):
            s = Path('/repo') / name
            (shutil.copytree(s, t / name, ignore=shutil.ignore_patterns('__pycache__')) if s.is_dir() else shutil.copy(s, t / name))
        r = subprocess.run(['patch', '-p1', '-s', '-i', str(d / 'patch.diff')], cwd=t, capture_output=True, text=True)
        if r.returncode:
            meta['applies_to_current_tree'] = False
            (d / 'meta.json').write_text(json.dumps(meta, indent=1))
            return d.name, meta
        meta['applies_to_current_tree'] = True
        env = dict(os.environ, TCV_SRC=str(t / 'src'))
        res = {}
        for pid in checks:
            r = subprocess.run(['/verif/check', pid, '--tier', 'quick'], env=env, capture_output=True, text=True)
            res[pid] = {'exit': r.returncode, 'clauses': [l[:300] for l in r.stdout.splitlines() if 'violated clause' in l][:4]}
        meta['checks_quick'] = res
        meta['caught_by'] = sorted(p for p, v in res.items() if v['exit'] == 1)
        (d / 'meta.json').write_text(json.dumps(meta, indent=1))
    finally:
        shutil.rmtree(t, ignore_errors=True)
    print(d.name, '->', meta['caught_by'], flush=True)
    return d.name, meta


with ThreadPoolExecutor(a.jobs) as ex:
    list(ex.map(run, seeds))
lines = ['# Seeded changes (from independent sub-agents) vs the quick checks', '',
         '| seeded change | breaks | needs to manifest | caught by (quick tier, seed 1) |', '|---|---|---|---|']
for d in sorted(x for x in root.iterdir() if x.is_dir() and (x / 'meta.json').exists()):
    m = json.loads((d / 'meta.json').read_text())
    lines.append(f'| {d.name} | {m["property"]} | {m.get("needs_to_manifest", "")[:160]} | {", ".join(m.get("caught_by", [])) or "**not caught**"} |')
(root / 'RESULTS.md').write_text('\n'.join(lines) + '\n')
