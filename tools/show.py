#!/venv/bin/python
"""Pretty-print an engine replay file: tools/show.py replays/C08/x.json"""
import json, sys
sys.path.insert(0, '/verif')
d = json.load(open(sys.argv[1]))
det = d.get('detail') or {}
print('CLAUSE:', d['clause'])
if isinstance(det, dict):
    print('DETAIL:', {k: v for k, v in det.items() if k != 'case'})
case = d['case']
if isinstance(case, dict) and 'program' in case:
    from tcv import engine
    desc = engine.describe(case)
    for name, src in desc['modules'].items():
        if 'objs' in name: continue
        print('-----', name)
        keep = [l for l in src.splitlines() if l.strip() and not l.startswith(('import', 'from'))]
        print('\n'.join(keep))
    for fn, data in desc['files'].items():
        print('=====', fn, json.dumps(data))
    print('ROOT', desc['root'], '| CONTEXT', json.dumps(desc['context']), '| GV', desc['global_vars'])
    for k in case:
        if k not in ('program', 'files', 'root', 'context', 'global_vars'):
            print('  ', k, '=', json.dumps(case[k])[:300])
else:
    print(json.dumps(case, indent=1)[:3000])
