#!/venv/bin/python
"""Confirm a seeded change produced by a sub-agent and file it under /verif/seeded/<name>/.

  tools/confirm_seed.py <worktree> <k> <name> <property> [--checks ID ...] [--needs "text"]

Confirms, in scratch copies of /repo (never in /repo itself):
  1. patch<k>.diff applies to the current tree;  2. the repository's 128 tests still pass with it;
  3. demo<k>.py fails with it;  4. demo<k>.py passes without it.
Then runs the named checks (quick tier) against the mutated copy and records everything in meta.json.
"""
import argparse
import json
import os
import shutil
import subprocess
import sys
import tempfile
from pathlib import Path

ap = argparse.ArgumentParser()
ap.add_argument('worktree')
ap.add_argument('k')
ap.add_argument('name')
ap.add_argument('prop')
ap.add_argument('--checks', nargs='*')
ap.add_argument('--needs', default='')
ap.add_argument('--tier', default='quick')
a = ap.parse_args()

wt = Path(a.worktree)
patch = wt / f'patch{a.k}.diff'
demo = wt / f'demo{a.k}.py'
dest = Path('/verif/seeded') / a.name
checks = a.checks if a.checks else [a.prop]


def copy_repo():
    d = Path(tempfile.mkdtemp(prefix='tcv-seed-'))
    for name in ('src', 'tests', 'pyproject.toml'):
        s = Path('/repo') / name
        if s.is_dir():
            shutil.copytree(s, d / name, ignore=shutil.ignore_patterns('__pycache__'))
        else:
            shutil.copy(s, d / name)
    return d


def run(cmd, cwd, env):
    r = subprocess.run(cmd, cwd=cwd, env=env, capture_output=True, text=True, timeout=3600)
    return r.returncode, (r.stdout + r.stderr)


meta = {'property': a.prop, 'needs_to_manifest': a.needs, 'ran': {}}
mut = copy_repo()
clean = copy_repo()
try:
    rc, out = run(['patch', '-p1', '-s', '-i', str(patch)], mut, os.environ)
    if rc:
        print('PATCH DOES NOT APPLY\n', out)
        sys.exit(3)
    envm = dict(os.environ, PYTHONPATH=str(mut / 'src'))
    envc = dict(os.environ, PYTHONPATH=str(clean / 'src'))
    rc, out = run(['/venv/bin/python', '-m', 'pytest', '-q', '-p', 'no:cacheprovider', '-q'], mut, envm)
    last = [l for l in out.strip().splitlines() if 'passed' in l or 'failed' in l][-1:]
    meta['ran']['repo_tests_with_change'] = last[0] if last else out[-200:]
    tests_ok = rc == 0
    shutil.copy(demo, mut / demo.name)      # (a demo may name itself in import strings: keep its file name)
    shutil.copy(demo, clean / demo.name)
    # demos were written with the worktree path inside; run them with PYTHONPATH first so the copy wins
    rc_m, out_m = run(['/venv/bin/python', demo.name], mut, envm)
    rc_c, out_c = run(['/venv/bin/python', demo.name], clean, envc)
    meta['ran']['demo_with_change_exit'] = rc_m
    meta['ran']['demo_without_change_exit'] = rc_c
    meta['ran']['demo_with_change_tail'] = out_m.strip().splitlines()[-1][:300] if out_m.strip() else ''
    print('tests:', meta['ran']['repo_tests_with_change'], '| demo with change exit', rc_m, '| without', rc_c)
    confirmed = tests_ok and rc_m != 0 and rc_c == 0
    meta['confirmed'] = confirmed
    results = {}
    for pid in checks:
        env = dict(os.environ, TCV_SRC=str(mut / 'src'))
        rc, out = run(['/verif/check', pid, '--tier', a.tier], '/verif', env)
        lines = [l for l in out.splitlines() if 'violated clause' in l or 'HARNESS' in l]
        results[pid] = {'exit': rc, 'clauses': [l[:300] for l in lines[:4]]}
        print(f'  check {pid}: exit={rc}')
        for l in lines[:3]:
            print('     ', l[:300])
    meta['checks_quick'] = results
    meta['caught_by'] = sorted(p for p, r in results.items() if r['exit'] == 1)
    if confirmed:
        dest.mkdir(parents=True, exist_ok=True)
        shutil.copy(patch, dest / 'patch.diff')
        shutil.copy(demo, dest / 'demo.py')
        meta['demo_original_name'] = demo.name
        notes = wt / 'NOTES.md'
        if notes.exists():
            shutil.copy(notes, dest / 'NOTES.agent.md')
        (dest / 'meta.json').write_text(json.dumps(meta, indent=1))
        print('kept as', dest, '| caught by:', meta['caught_by'])
    else:
        print('NOT CONFIRMED - not kept')
finally:
    shutil.rmtree(mut, ignore_errors=True)
    shutil.rmtree(clean, ignore_errors=True)
    # restore evidence of the real tree is the caller's job (checks rewrite evidence/<id>.json)
