#!/venv/bin/python
"""Pretty-print a history replay file."""
import json, sys
sys.path.insert(0, '/verif')
d = json.load(open(sys.argv[1]))
det = d.get('detail') or {}
print('CLAUSE:', d['clause'])
print('DETAIL:', {k: v for k, v in det.items() if k not in ('case', 'history')} if isinstance(det, dict) else str(det)[:600])
h = d['case']
from tcv import build, engine
for name, src in build.sources(h['program']).items():
    if 'objs' in name: continue
    print('-----', name)
    print('\n'.join(l for l in src.splitlines() if l.strip() and not l.startswith(('import', 'from')) and 'tcv_ign' not in l and 'tcv_def' not in l))
for i, v in enumerate(h['variants']):
    desc = engine.describe(v)
    print(f'===== variant {i}', v.get('variant_labels'))
    for fn, data in desc['files'].items():
        print('   ', fn, json.dumps(data))
    print('    ROOT', desc['root'], '| CONTEXT', json.dumps(desc['context']), '| GV', desc['global_vars'])
for i, op in enumerate(h['ops']):
    print(i, json.dumps(op))
