#!/venv/bin/python
"""Rebase a seeded patch by re-doing its edit on the current tree:
   tools/rebase_seed.py <seed name> <file under src/taskchain> <<< JSON [[old, new], ...]
Writes the new patch.diff (keeps the old one as patch.orig.diff), then re-confirms demo + tests."""
import json, shutil, subprocess, sys, tempfile
from pathlib import Path
name, rel = sys.argv[1], sys.argv[2]
pairs = json.load(sys.stdin)
seed = Path('/verif/seeded') / name
d = Path(tempfile.mkdtemp(prefix='tcv-rebase-'))
try:
    (d / 'a/src/taskchain').mkdir(parents=True)
    (d / 'b/src/taskchain').mkdir(parents=True)
    src = Path('/repo/src/taskchain') / rel
    (d / 'a/src/taskchain' / rel).parent.mkdir(parents=True, exist_ok=True)
    (d / 'b/src/taskchain' / rel).parent.mkdir(parents=True, exist_ok=True)
    text = src.read_text()
    (d / 'a/src/taskchain' / rel).write_text(text)
    for old, new in pairs:
        assert old in text, 'old text not found: ' + old[:60]
        text = text.replace(old, new, 1)
    (d / 'b/src/taskchain' / rel).write_text(text)
    r = subprocess.run(['diff', '-u', f'a/src/taskchain/{rel}', f'b/src/taskchain/{rel}'], cwd=d, capture_output=True, text=True)
    if not (seed / 'patch.orig.diff').exists():
        shutil.copy(seed / 'patch.diff', seed / 'patch.orig.diff')
    (seed / 'patch.diff').write_text(r.stdout)
    ok = subprocess.run(['git', '-C', '/repo', 'apply', '--check', str(seed / 'patch.diff')]).returncode == 0
    print('applies:', ok)
finally:
    shutil.rmtree(d, ignore_errors=True)
