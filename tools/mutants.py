#!/venv/bin/python
"""Run the sensitivity mutants: tools/mutants.py [--only id,id] [--jobs N]   -> mutants/RESULTS.md"""
import argparse, json, os, shutil, subprocess, sys, tempfile
from concurrent.futures import ThreadPoolExecutor
from pathlib import Path

ap = argparse.ArgumentParser()
ap.add_argument('--only')
ap.add_argument('--jobs', type=int, default=2)
ap.add_argument('--tests', action='store_true')
a = ap.parse_args()
muts = json.load(open('/verif/mutants/mutants.json'))
if a.only:
    muts = [m for m in muts if m['id'] in a.only.split(',') or any(m['id'].startswith(x) for x in a.only.split(','))]


def run(m):
    d = Path(tempfile.mkdtemp(prefix='tcv-mut-'))
    res = {'id': m['id'], 'props': {}}
    try:
        for name in ('src', 'tests', 'pyproject.toml'):
            s = Path('/repo') / name
            (shutil.copytree(s, d / name, ignore=shutil.ignore_patterns('__pycache__')) if s.is_dir() else shutil.copy(s, d / name))
        f = d / 'src' / 'taskchain' / m['file']
        src = f.read_text()
        if m['old'] not in src:
            res['error'] = 'old text not found'
            return res
        f.write_text(src.replace(m['old'], m['new'], 1))
        env = dict(os.environ, PYTHONPATH=str(d / 'src'))
        r = subprocess.run(['/venv/bin/python', '-m', 'pytest', '-q', '-p', 'no:cacheprovider', '-q'], cwd=d, env=env,
                           capture_output=True, text=True)
        res['tests'] = (r.stdout.strip().splitlines() or ['?'])[-1]
        env = dict(os.environ, TCV_SRC=str(d / 'src'))
        for pid in m['props']:
            r = subprocess.run(['/verif/check', pid, '--tier', 'quick'], env=env, capture_output=True, text=True)
            cl = [l.split('violated clause: ')[1].split(' ::')[0] for l in r.stdout.splitlines() if 'violated clause' in l]
            res['props'][pid] = {'exit': r.returncode, 'clauses': cl[:3]}
    finally:
        shutil.rmtree(d, ignore_errors=True)
    print(json.dumps(res), flush=True)
    return res


with ThreadPoolExecutor(a.jobs) as ex:
    results = list(ex.map(run, muts))
out = Path('/verif/mutants/RESULTS.md')
prev = {}
if out.exists() and a.only:
    for line in out.read_text().splitlines():
        if line.startswith('| m'):
            prev[line.split('|')[1].strip()] = line
lines = ['# Sensitivity mutants (quick tier, VERIF_SEED=1)', '',
         'Each mutant is applied to a scratch copy of /repo; "tests" is the repository\'s own suite on the mutant;',
         'per property: exit code of the quick check (1 = VIOLATION reported) and the first violated clauses.', '',
         '| mutant | repo tests | checks |', '|---|---|---|']
for r in results:
    checks = '; '.join(f'{p}: {"CAUGHT" if v["exit"] == 1 else "missed(exit %d)" % v["exit"]} {v["clauses"]}' for p, v in r['props'].items())
    prev[r['id']] = f'| {r["id"]} | {r.get("tests", r.get("error"))} | {checks} |'
lines += [prev[k] for k in sorted(prev)]
out.write_text('\n'.join(lines) + '\n')
